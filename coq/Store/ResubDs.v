(* Resumable subscriptions over the durable-streams store (/repo/stores/durablestream/store.go with /repo/persist.go).
   The store has no streaming read, so Replay pages through Read(from, 100); Read returns the events after the server
   offset [from] (one server chunk: every history here fits one chunk), cut to the batch size, with the chunk's end as
   next offset, and labels the events with synthetic offsets "<chunk end>/<index>".  Resuming from such an offset
   resumes from the chunk end (the part after "/" is ignored by the server).  So the position that the replay callback
   saves for each handled event is the chunk end N - not the event's own position - and the saved value is a resume
   position.  The live handler saves the offset returned by Append, which is the event's own position.

   Ticks: append, read (one per page), save-offset, load-offset, handler deliveries.  The primitives (tick, deliver, save,
   pub, live_handle) are those of Store/ResubModel.v, with the repaired variant. *)
From Coq Require Import List Arith Bool.
Import ListNotations.
From Ebu Require Export Store.ResubModel.

Definition batch : nat := 100.

(* one page: for each event of the subscribed type, the handler (which may publish), then SaveOffset of its synthetic
   offset, i.e. of the chunk end N *)
Fixpoint page_loop (page : list (nat * ev)) (s : rs) (id ty N k : nat) (inner : list (nat * nat * nat)) : rs * nat :=
  match page with
  | [] => (s, k)
  | (pos, e) :: r =>
    if Nat.eqb (e_ty e) ty then
      let s2 := deliver s id (e_val e) pos in
      let s3 := fold_left (fun acc tv => pub fixed acc (fst tv) (snd tv)) (inner_at inner k) s2 in
      let s4 := save s3 id N in
      page_loop r s4 id ty N (S k) inner
    else page_loop r s id ty N k inner
  end.

(* Replay: read a page, handle it, continue from the chunk end, until a page is empty.  Out of fuel = error (the
   histories of the correspondence check never get there; the theorems say so where it matters). *)
Fixpoint replay_pages (fuel : nat) (s : rs) (id ty from k : nat) (inner : list (nat * nat * nat)) : rs * bool :=
  match fuel with
  | 0 => (s, true)
  | S f =>
    let '(s1, p, fl) := tick s in
    if negb p || fl then (s1, true)
    else
      let N := length (log s1) in
      match firstn batch (skipn from (indexed (log s1) 1)) with
      | [] => (s1, false)
      | page =>
        let '(s2, k2) := page_loop page s1 id ty N k inner in
        if Nat.eqb N from then (s2, true) else replay_pages f s2 id ty N k2 inner
      end
  end.

Definition sub_ds (fuel : nat) (tys : list nat) (s : rs) (id : nat) (inner : list (nat * nat * nat)) : rs * bool :=
  let ty := nth id tys 0 in
  let '(s1, p, f) := tick s in
  if negb p || f then (s1, true)
  else
    let '(s3, err) := replay_pages fuel s1 id ty (get_saved s1 id) 0 inner in
    if err || dead s3 then (s3, true) else (with_live s3 id ty, false).

Definition step_ds (fuel : nat) (tys : list nat) (s : rs) (o : op) (pl : plan) : rs * bool :=
  match o with
  | ORestart => (restart s, false)
  | OPub ty val => (pub fixed (begin_op s pl) ty val, false)
  | OSub id inner => if op_ok s o then sub_ds fuel tys (begin_op s pl) id inner else (s, true)
  end.

Definition run_ds (fuel : nat) (tys : list nat) (h : list (op * plan)) (s : rs) : rs :=
  fold_left (fun acc x => fst (step_ds fuel tys acc (fst x) (snd x))) h s.

Fixpoint run_obs_ds (fuel : nat) (tys : list nat) (h : list (op * plan)) (s : rs) : list oobs :=
  match h with
  | [] => []
  | (o, pl) :: r =>
    let '(s', err) := step_ds fuel tys s o pl in
    {| oo_dels := new_dels s s'; oo_err := err && negb (dead s');
       oo_saved := map (get_saved s') (seq 0 (length tys)); oo_dead := dead s' |} :: run_obs_ds fuel tys r s'
  end.
