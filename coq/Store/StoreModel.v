(* Models of the bundled event stores as executable state machines over one operation
   language: MemoryStore (/repo/persist.go) and SQLiteStore (/repo/stores/sqlite/store.go).
   Payloads (type, JSON data, timestamp instant) are opaque ids: the stores never look at them. *)
From Coq Require Import List NArith ZArith Bool Lia.
Import ListNotations.
From Ebu Require Import Store.Lex.

Definition offset := bytes.
Record sev := { e_off : offset; e_pay : nat }.

Definition take {A} (limit : Z) (l : list A) : list A :=
  if (limit <=? 0)%Z then l else firstn (Z.to_nat limit) l.

Fixpoint last_off (from : offset) (l : list sev) : offset :=
  match l with [] => from | e :: r => last_off (e_off e) r end.

(* ---------------- MemoryStore ---------------- *)
Record mem := { m_events : list sev; m_next : N; m_subs : list (nat * offset) }.
Definition mem_init : mem := {| m_events := []; m_next := 0; m_subs := [] |}.

Definition mem_append (s : mem) (p : nat) : mem * offset :=
  let n := (m_next s + 1)%N in
  let off := pad 20 n in          (* fmt.Sprintf("%020d", m.nextOffset) *)
  ({| m_events := m_events s ++ [{| e_off := off; e_pay := p |}]; m_next := n; m_subs := m_subs s |}, off).

Definition is_oldest (o : offset) : bool := match o with [] => true | _ => false end.

(* the loop of MemoryStore.Read: [count] = len(result) so far, [last] = lastOffset so far *)
Fixpoint mem_read_loop (evs : list sev) (from : offset) (limit : Z) (count : Z) (last : offset)
  : list sev * offset :=
  match evs with
  | [] => ([], last)
  | e :: r =>
    if is_oldest from || lexlt from (e_off e) then
      if (0 <? limit)%Z && (limit <=? count + 1)%Z then ([e], e_off e)
      else let '(res, l) := mem_read_loop r from limit (count + 1)%Z (e_off e) in (e :: res, l)
    else mem_read_loop r from limit count last
  end.
Definition mem_read (s : mem) (from : offset) (limit : Z) : list sev * offset :=
  mem_read_loop (m_events s) from limit 0%Z from.

(* ReadStream: filtered snapshot *)
Definition mem_stream (s : mem) (from : offset) : list sev :=
  filter (fun e => is_oldest from || lexlt from (e_off e)) (m_events s).

Fixpoint sub_set {V} (l : list (nat * V)) (k : nat) (v : V) : list (nat * V) :=
  match l with
  | [] => [(k, v)]
  | (k', v') :: r => if Nat.eqb k' k then (k, v) :: r else (k', v') :: sub_set r k v
  end.
Fixpoint sub_get {V} (l : list (nat * V)) (k : nat) : option V :=
  match l with
  | [] => None
  | (k', v) :: r => if Nat.eqb k' k then Some v else sub_get r k
  end.

Definition mem_save (s : mem) (id : nat) (o : offset) : mem :=
  {| m_events := m_events s; m_next := m_next s; m_subs := sub_set (m_subs s) id o |}.
Definition mem_load (s : mem) (id : nat) : offset :=
  match sub_get (m_subs s) id with Some o => o | None => [] end.

(* ---------------- SQLiteStore ---------------- *)
(* rows of table events (position INTEGER PRIMARY KEY AUTOINCREMENT), in position order;
   q_seq = sqlite_sequence high-water mark; subscription_positions as a map *)
Record sq := { q_rows : list (Z * nat); q_seq : Z; q_subs : list (nat * Z) }.
Definition sq_init : sq := {| q_rows := []; q_seq := 0; q_subs := [] |}.

Definition fmt_pos (p : Z) : offset :=          (* strconv.FormatInt(p, 10) *)
  if (p <? 0)%Z then 45%N :: dec (Z.to_N (- p)) else dec (Z.to_N p).
Definition parse_offset (o : offset) : option Z :=
  match o with [] => Some 0%Z | _ => parse_int o end.

Definition sq_append (s : sq) (p : nat) : sq * offset :=
  let pos := (q_seq s + 1)%Z in
  ({| q_rows := q_rows s ++ [(pos, p)]; q_seq := pos; q_subs := q_subs s |}, fmt_pos pos).

Definition sq_select (s : sq) (pos : Z) : list sev :=
  map (fun r => {| e_off := fmt_pos (fst r); e_pay := snd r |})
      (filter (fun r => (pos <? fst r)%Z) (q_rows s)).

(* Read: None = error (unparsable offset) *)
Definition sq_read (s : sq) (from : offset) (limit : Z) : option (list sev * offset) :=
  match parse_offset from with
  | None => None
  | Some pos => let evs := take limit (sq_select s pos) in Some (evs, last_off from evs)
  end.
Definition sq_stream (s : sq) (from : offset) : option (list sev) :=
  match parse_offset from with
  | None => None
  | Some pos => Some (sq_select s pos)
  end.
Definition sq_save (s : sq) (id : nat) (o : offset) : sq * bool :=
  match parse_offset o with
  | None => (s, false)
  | Some pos => ({| q_rows := q_rows s; q_seq := q_seq s; q_subs := sub_set (q_subs s) id pos |}, true)
  end.
Definition sq_load (s : sq) (id : nat) : offset :=
  match sub_get (q_subs s) id with Some p => fmt_pos p | None => [] end.

(* ---------------- one operation language for all stores ---------------- *)
Inductive sop :=
| SAppend (store : nat) (payload : nat)
| SRead (store : nat) (from : offset) (limit : Z)
| SStream (store : nat) (from : offset)
| SSave (store : nat) (id : nat) (o : offset)
| SLoad (store : nat) (id : nat).

Inductive sres :=
| RAppend (r : option offset)                 (* None = error *)
| RRead (r : option (list sev * offset))
| RStream (r : option (list sev))
| RSave (ok : bool)
| RLoad (r : option offset).

Definition store_of (o : sop) : nat :=
  match o with SAppend k _ | SRead k _ _ | SStream k _ | SSave k _ _ | SLoad k _ => k end.

Record store_impl (S : Type) := {
  i_init : S;
  i_append : S -> nat -> S * option offset;
  i_read : S -> offset -> Z -> option (list sev * offset);
  i_stream : S -> offset -> option (list sev);
  i_save : S -> nat -> offset -> S * bool;
  i_load : S -> nat -> option offset
}.

Definition mem_impl : store_impl mem := {|
  i_init := mem_init;
  i_append := fun s p => let '(s', o) := mem_append s p in (s', Some o);
  i_read := fun s f l => Some (mem_read s f l);
  i_stream := fun s f => Some (mem_stream s f);
  i_save := fun s id o => (mem_save s id o, true);
  i_load := fun s id => Some (mem_load s id)
|}.
Definition sq_impl : store_impl sq := {|
  i_init := sq_init;
  i_append := fun s p => let '(s', o) := sq_append s p in (s', Some o);
  i_read := sq_read;
  i_stream := sq_stream;
  i_save := sq_save;
  i_load := fun s id => Some (sq_load s id)
|}.

Section Run.
  Variable S : Type.
  Variable I : store_impl S.
  (* two separately created stores, addressed by index 0 / 1 *)
  Definition pick (st : S * S) (k : nat) : S := if Nat.eqb k 0 then fst st else snd st.
  Definition put (st : S * S) (k : nat) (s : S) : S * S := if Nat.eqb k 0 then (s, snd st) else (fst st, s).

  Definition step (st : S * S) (o : sop) : (S * S) * sres :=
    match o with
    | SAppend k p => let '(s', r) := i_append S I (pick st k) p in (put st k s', RAppend r)
    | SRead k f l => (st, RRead (i_read S I (pick st k) f l))
    | SStream k f => (st, RStream (i_stream S I (pick st k) f))
    | SSave k id off => let '(s', ok) := i_save S I (pick st k) id off in (put st k s', RSave ok)
    | SLoad k id => (st, RLoad (i_load S I (pick st k) id))
    end.

  Fixpoint run (st : S * S) (ops : list sop) : list sres :=
    match ops with
    | [] => []
    | o :: r => let '(st', res) := step st o in res :: run st' r
    end.
  Definition run_init (ops : list sop) : list sres := run (i_init S I, i_init S I) ops.
End Run.

(* ---------------- durable-streams store (/repo/stores/durablestream/store.go) over the
   in-memory durable-streams server: one message per append, offsets "%010d", reads paginated
   by the server into chunks of [d_chunk] messages (0 = unlimited; the harness makes all messages
   the same size so that the server's byte budget is a message count) ---------------- *)
Record ds := { d_msgs : list nat; d_chunk : nat }.
Definition ds_init (chunk : nat) : ds := {| d_msgs := []; d_chunk := chunk |}.
Definition ds_off (k : nat) : offset := pad 10 (N.of_nat k).

Definition ds_append (s : ds) (p : nat) : ds * offset :=
  ({| d_msgs := d_msgs s ++ [p]; d_chunk := d_chunk s |}, ds_off (S (length (d_msgs s)))).

(* the server's parseOffset: "" and "-1" are the start; otherwise fmt.Sscanf("%d"): optional sign,
   at least one digit, stops at the first other byte *)
Fixpoint lead_digits (l : bytes) (acc : N) (seen : bool) : option N :=
  match l with
  | c :: r => if (48 <=? c)%N && (c <=? 57)%N then lead_digits r (acc * 10 + (c - 48))%N true
              else if seen then Some acc else None
  | [] => if seen then Some acc else None
  end.
Definition ds_parse (o : offset) : option Z :=
  match o with
  | [] => Some 0%Z
  | [45%N; 49%N] => Some 0%Z                      (* "-1" *)
  | 45%N :: r => option_map (fun n => (- Z.of_N n)%Z) (lead_digits r 0 false)
  | 43%N :: r => option_map Z.of_N (lead_digits r 0 false)
  | _ => option_map Z.of_N (lead_digits o 0 false)
  end.

Definition ds_chunk_of (s : ds) (idx : nat) : list nat :=
  let rest := skipn idx (d_msgs s) in
  match d_chunk s with 0 => rest | c => firstn c rest end.

Fixpoint synth (next : offset) (i : N) (l : list nat) : list sev :=
  match l with
  | [] => []
  | p :: r => {| e_off := next ++ [47%N] ++ dec i; e_pay := p |} :: synth next (i + 1)%N r
  end.

Definition ds_read (s : ds) (from : offset) (limit : Z) : option (list sev * offset) :=
  match ds_parse from with
  | None => None
  | Some z =>
    if (z <? 0)%Z || (Z.of_nat (length (d_msgs s)) <? z)%Z then None       (* ErrGone *)
    else
      let idx := Z.to_nat z in
      let chunk := ds_chunk_of s idx in
      match chunk with
      | [] => Some ([], match from with [] | [45%N; 49%N] => ds_off 0 | _ => from end)
      | _ => let next := ds_off (idx + length chunk) in
             Some (take limit (synth next 0 chunk), next)   (* truncation keeps the chunk's end as next *)
      end
  end.

Definition ds_impl (chunk : nat) : store_impl ds := {|
  i_init := ds_init chunk;
  i_append := fun s p => let '(s', o) := ds_append s p in (s', Some o);
  i_read := ds_read;
  i_stream := fun _ _ => None;
  i_save := fun s _ _ => (s, false);
  i_load := fun _ _ => None
|}.
