(* Model of /repo/state/materializer.go (Materializer.Apply, applyChange, applyControl,
   typedCollectionApplier, MemoryStore) over decoded documents.  No proofs here. *)
From Coq Require Import List String Arith Bool.
Import ListNotations.
Local Open Scope string_scope.

Definition composite (ty key : string) : string := ty ++ "/" ++ key.   (* CompositeKey *)

Inductive opk := OpInsert | OpUpdate | OpDelete | OpOther.
Inductive ctlk := CtlReset | CtlSnapStart | CtlSnapEnd | CtlOther.

(* every outcome of decoding an event's data, in the order Apply discriminates them *)
Inductive doc :=
| DBadRoot                  (* data is not a JSON value with a decodable "headers" member: Apply returns an error *)
| DControl (c : ctlk)       (* headers decode as control headers with a non-empty control string *)
| DBadChange                (* not control, and the data does not decode as a ChangeMessage: error *)
| DChange (ty key : string) (op : opk) (val : option nat).
                            (* val = None: "value" does not decode into the collection's entity type *)

(* association lists: Go maps *)
Fixpoint aget {V} (l : list (string * V)) (k : string) : option V :=
  match l with
  | [] => None
  | (k', v) :: r => if String.eqb k' k then Some v else aget r k
  end.
Fixpoint aset {V} (l : list (string * V)) (k : string) (v : V) : list (string * V) :=
  match l with
  | [] => [(k, v)]
  | (k', v') :: r => if String.eqb k' k then (k, v) :: r else (k', v') :: aset r k v
  end.
Definition adel {V} (l : list (string * V)) (k : string) : list (string * V) :=
  filter (fun kv => negb (String.eqb (fst kv) k)) l.

Definition coll := list (string * nat).          (* a collection's store: composite key -> entity *)

Record mstate := {
  colls : list (string * coll);     (* Materializer.collections: entity type -> collection *)
  last : nat                        (* lastOffset, as the event's position; 0 = OffsetOldest *)
}.

Inductive callback := CbReset | CbSnapshot (start : bool) | CbError.

Definition init_state (types : list string) : mstate :=
  {| colls := fold_left (fun acc t => aset acc t []) types []; last := 0 |}.

Definition set_last (s : mstate) (off : nat) : mstate := {| colls := colls s; last := off |}.
Definition set_colls (s : mstate) (c : list (string * coll)) : mstate := {| colls := c; last := last s |}.

Definition apply_ctl (s : mstate) (c : ctlk) : mstate :=
  match c with
  | CtlReset => {| colls := map (fun tc => (fst tc, [])) (colls s); last := last s |}
  | _ => s
  end.

(* Materializer.Apply on one stored event at position [off]; the boolean is "returned nil" *)
Definition apply_doc (strict : bool) (s : mstate) (off : nat) (d : doc) : mstate * bool :=
  match d with
  | DBadRoot => (s, false)
  | DControl c => (set_last (apply_ctl s c) off, true)
  | DBadChange => (s, false)
  | DChange ty key op val =>
    match aget (colls s) ty with
    | None => if strict then (s, false) else (set_last s off, true)
    | Some c =>
      match op with
      | OpInsert | OpUpdate =>
        match val with
        | None => (s, false)
        | Some v => (set_last (set_colls s (aset (colls s) ty (aset c (composite ty key) v))) off, true)
        end
      | OpDelete => (set_last (set_colls s (aset (colls s) ty (adel c (composite ty key)))) off, true)
      | OpOther => (set_last s off, true)
      end
    end
  end.

(* the user callbacks (onReset / onSnapshot / onError) one Apply call makes *)
Definition callbacks_of (s : mstate) (d : doc) : list callback :=
  match d with
  | DControl CtlReset => [CbReset]
  | DControl CtlSnapStart => [CbSnapshot true]
  | DControl CtlSnapEnd => [CbSnapshot false]
  | DChange ty key (OpInsert | OpUpdate) None =>
      match aget (colls s) ty with Some _ => [CbError] | None => [] end
  | _ => []
  end.

(* calling Apply on every event, errors ignored by the caller *)
Fixpoint run_all (strict : bool) (s : mstate) (evs : list (nat * doc)) : mstate * list bool :=
  match evs with
  | [] => (s, [])
  | (off, d) :: r => let '(s', ok) := apply_doc strict s off d in
                     let '(s'', oks) := run_all strict s' r in (s'', ok :: oks)
  end.
Fixpoint run_all_callbacks (strict : bool) (s : mstate) (evs : list (nat * doc)) : list callback :=
  match evs with
  | [] => []
  | (off, d) :: r => callbacks_of s d ++ run_all_callbacks strict (fst (apply_doc strict s off d)) r
  end.

(* Materializer.Replay(bus, from = LastOffset): events after [last s], stop at the first error *)
Fixpoint run_until_error (strict : bool) (s : mstate) (evs : list (nat * doc)) : mstate * bool :=
  match evs with
  | [] => (s, true)
  | (off, d) :: r => let '(s', ok) := apply_doc strict s off d in
                     if ok then run_until_error strict s' r else (s', false)
  end.
Definition session (strict : bool) (s : mstate) (log : list (nat * doc)) : mstate * bool :=
  run_until_error strict s (filter (fun e => Nat.ltb (last s) (fst e)) log).

(* ---- the specification: last-writer-wins fold ---- *)
Definition smap := string -> string -> option nat.      (* entity type -> key -> entity *)
Definition sempty : smap := fun _ _ => None.
Definition supd (m : smap) (ty key : string) (v : option nat) : smap :=
  fun t k => if String.eqb t ty && String.eqb k key then v else m t k.

Definition spec_step (registered : string -> bool) (m : smap) (d : doc) : smap :=
  match d with
  | DControl CtlReset => sempty
  | DChange ty key OpInsert (Some v) | DChange ty key OpUpdate (Some v) =>
      if registered ty then supd m ty key (Some v) else m
  | DChange ty key OpDelete _ => if registered ty then supd m ty key None else m
  | _ => m
  end.
