From Coq Require Import List String Arith Bool Lia.
Import ListNotations.
From Ebu Require Import State.StateModel.
Local Open Scope string_scope.
Local Open Scope list_scope.

Lemma append_inj_l (p a b : string) : (p ++ a)%string = (p ++ b)%string -> a = b.
Proof. induction p as [|c p IH]; simpl; intros H; [exact H|]. inversion H. auto. Qed.

Theorem composite_inj ty k1 k2 : composite ty k1 = composite ty k2 -> k1 = k2.
Proof.
  unfold composite. intros H. apply append_inj_l in H. simpl in H. inversion H. reflexivity.
Qed.

(* ---- association lists ---- *)
Lemma aget_aset_same {V} (l : list (string * V)) k v : aget (aset l k v) k = Some v.
Proof.
  induction l as [|[k' v'] r IH]; simpl.
  - rewrite String.eqb_refl. reflexivity.
  - destruct (String.eqb k' k) eqn:E; simpl.
    + rewrite String.eqb_refl. reflexivity.
    + rewrite E. exact IH.
Qed.

Lemma aget_aset_other {V} (l : list (string * V)) k v k' : k <> k' -> aget (aset l k v) k' = aget l k'.
Proof.
  intros N. induction l as [|[k0 v0] r IH]; simpl.
  - destruct (String.eqb k k') eqn:E; [apply String.eqb_eq in E; contradiction|reflexivity].
  - destruct (String.eqb k0 k) eqn:E; simpl.
    + apply String.eqb_eq in E. subst k0.
      destruct (String.eqb k k') eqn:E2; [apply String.eqb_eq in E2; contradiction|reflexivity].
    + destruct (String.eqb k0 k'); [reflexivity|exact IH].
Qed.

Lemma aget_adel_same {V} (l : list (string * V)) k : aget (adel l k) k = None.
Proof.
  induction l as [|[k0 v0] r IH]; simpl; [reflexivity|].
  destruct (String.eqb k0 k) eqn:E; simpl; [exact IH|]. rewrite E. exact IH.
Qed.

Lemma aget_adel_other {V} (l : list (string * V)) k k' : k <> k' -> aget (adel l k) k' = aget l k'.
Proof.
  intros N. induction l as [|[k0 v0] r IH]; simpl; [reflexivity|].
  destruct (String.eqb k0 k) eqn:E; simpl.
  - apply String.eqb_eq in E. subst k0.
    destruct (String.eqb k k') eqn:E2; [apply String.eqb_eq in E2; contradiction|exact IH].
  - destruct (String.eqb k0 k'); [reflexivity|exact IH].
Qed.

Lemma aget_map_clear (l : list (string * coll)) t :
  aget (map (fun tc => (fst tc, @nil (string * nat))) l) t = match aget l t with Some _ => Some [] | None => None end.
Proof.
  induction l as [|[k v] r IH]; simpl; [reflexivity|]. destruct (String.eqb k t); [reflexivity|exact IH].
Qed.

Lemma keys_aset {V} (l : list (string * V)) k v x :
  In x (map fst (aset l k v)) -> x = k \/ In x (map fst l).
Proof.
  induction l as [|[k0 v0] r IH]; simpl.
  - intros [H|[]]; auto.
  - destruct (String.eqb k0 k) eqn:E; simpl.
    + apply String.eqb_eq in E. subst. intros [H|H]; auto.
    + intros [H|H]; auto. destruct (IH H); auto.
Qed.

Lemma keys_adel {V} (l : list (string * V)) k x : In x (map fst (adel l k)) -> In x (map fst l).
Proof.
  unfold adel. rewrite !in_map_iff. intros [kv [H1 H2]]. apply filter_In in H2. exists kv. tauto.
Qed.

(* ---- refinement to the last-writer-wins fold ---- *)
Definition registered (s : mstate) (t : string) : bool :=
  match aget (colls s) t with Some _ => true | None => false end.

(* abstraction: what collection [t] holds under key [k] *)
Definition abs (s : mstate) : smap :=
  fun t k => match aget (colls s) t with Some c => aget c (composite t k) | None => None end.

Definition smap_eq_on (P : string -> bool) (m1 m2 : smap) : Prop :=
  forall t k, P t = true -> m1 t k = m2 t k.

Lemma registered_apply strict s off d t :
  registered (fst (apply_doc strict s off d)) t = registered s t.
Proof.
  unfold registered.
  destruct d as [|c| |ty key op val]; simpl; try reflexivity.
  - destruct c; simpl; try reflexivity. rewrite aget_map_clear. destruct (aget (colls s) t); reflexivity.
  - destruct (aget (colls s) ty) as [c|] eqn:E.
    + destruct op; simpl; try reflexivity;
      try (destruct val; simpl; try reflexivity);
      (destruct (String.eqb ty t) eqn:Et;
       [apply String.eqb_eq in Et; subst t; rewrite aget_aset_same, E; reflexivity
       |rewrite aget_aset_other by (intro; subst; rewrite String.eqb_refl in Et; discriminate); reflexivity]).
    + destruct strict; reflexivity.
Qed.

Theorem apply_refines strict s off d :
  smap_eq_on (registered s) (abs (fst (apply_doc strict s off d))) (spec_step (registered s) (abs s) d).
Proof.
  intros t k Ht. unfold abs, registered in *.
  destruct d as [|c| |ty key op val]; simpl; try reflexivity.
  - destruct c; simpl; try reflexivity.
    rewrite aget_map_clear. destruct (aget (colls s) t); reflexivity.
  - destruct (aget (colls s) ty) as [c|] eqn:E.
    + assert (Hset: forall c', 
        match aget (aset (colls s) ty c') t with Some c0 => aget c0 (composite t k) | None => None end =
        if String.eqb t ty then aget c' (composite t k)
        else match aget (colls s) t with Some c0 => aget c0 (composite t k) | None => None end).
      { intros c'. destruct (String.eqb t ty) eqn:Et.
        - apply String.eqb_eq in Et. subst t. rewrite aget_aset_same. reflexivity.
        - rewrite aget_aset_other; [reflexivity|]. intro; subst. rewrite String.eqb_refl in Et. discriminate. }
      destruct op; simpl.
      * destruct val as [v|]; simpl; [|destruct (aget (colls s) ty); reflexivity].
        rewrite Hset. unfold supd. destruct (String.eqb t ty) eqn:Et; simpl.
        -- apply String.eqb_eq in Et. subst t. rewrite ?E.
           destruct (String.eqb k key) eqn:Ek.
           ++ apply String.eqb_eq in Ek. subst. apply aget_aset_same.
           ++ rewrite aget_aset_other; [reflexivity|]. intro H. apply composite_inj in H. subst.
              rewrite String.eqb_refl in Ek. discriminate.
        -- rewrite ?E. reflexivity.
      * destruct val as [v|]; simpl; [|destruct (aget (colls s) ty); reflexivity].
        rewrite Hset. unfold supd. destruct (String.eqb t ty) eqn:Et; simpl.
        -- apply String.eqb_eq in Et. subst t. rewrite ?E.
           destruct (String.eqb k key) eqn:Ek.
           ++ apply String.eqb_eq in Ek. subst. apply aget_aset_same.
           ++ rewrite aget_aset_other; [reflexivity|]. intro H. apply composite_inj in H. subst.
              rewrite String.eqb_refl in Ek. discriminate.
        -- rewrite ?E. reflexivity.
      * rewrite Hset. rewrite ?E. unfold supd. destruct (String.eqb t ty) eqn:Et; simpl.
        -- apply String.eqb_eq in Et. subst t. rewrite ?E.
           destruct (String.eqb k key) eqn:Ek.
           ++ apply String.eqb_eq in Ek. subst. apply aget_adel_same.
           ++ rewrite aget_adel_other; [reflexivity|]. intro H. apply composite_inj in H. subst.
              rewrite String.eqb_refl in Ek. discriminate.
        -- reflexivity.
      * rewrite ?E. reflexivity.
    + destruct strict; simpl.
      * destruct op; try reflexivity; destruct val; reflexivity.
      * destruct op; try reflexivity; destruct val; reflexivity.
Qed.

Lemma spec_step_ext P m1 m2 d : smap_eq_on P m1 m2 -> smap_eq_on P (spec_step P m1 d) (spec_step P m2 d).
Proof.
  intros H t k Ht. destruct d as [|c| |ty key op val]; simpl; try (apply H; exact Ht).
  - destruct c; try (apply H; exact Ht). reflexivity.
  - destruct op; try (apply H; exact Ht).
    + destruct val; [|apply H; exact Ht]. destruct (P ty); [|apply H; exact Ht].
      unfold supd. destruct (String.eqb t ty && String.eqb k key); [reflexivity|apply H; exact Ht].
    + destruct val; [|apply H; exact Ht]. destruct (P ty); [|apply H; exact Ht].
      unfold supd. destruct (String.eqb t ty && String.eqb k key); [reflexivity|apply H; exact Ht].
    + destruct (P ty); [|apply H; exact Ht].
      unfold supd. destruct (String.eqb t ty && String.eqb k key); [reflexivity|apply H; exact Ht].
Qed.

(* After applying any sequence of documents (each Apply call's error ignored or not: a failing
   call changes nothing, see apply_error_clean), every registered collection holds the fold. *)
Theorem run_all_fold strict : forall evs s,
  smap_eq_on (registered s) (abs (fst (run_all strict s evs)))
             (fold_left (spec_step (registered s)) (map snd evs) (abs s)).
Proof.
  induction evs as [|[off d] r IH]; intros s; simpl.
  - intros t k _. reflexivity.
  - destruct (apply_doc strict s off d) as [s' ok] eqn:E1.
    destruct (run_all strict s' r) as [s'' oks] eqn:E2. simpl.
    intros t k Ht.
    assert (Hreg: forall x, registered s' x = registered s x).
    { intros x. replace s' with (fst (apply_doc strict s off d)) by (rewrite E1; reflexivity). apply registered_apply. }
    specialize (IH s'). rewrite E2 in IH. simpl in IH.
    rewrite IH by (rewrite Hreg; exact Ht).
    assert (Hext: forall l m1 m2, smap_eq_on (registered s) m1 m2 ->
              smap_eq_on (registered s) (fold_left (spec_step (registered s')) l m1)
                                        (fold_left (spec_step (registered s)) l m2)).
    { induction l as [|d0 l IHl]; intros m1 m2 Hm; simpl; [exact Hm|].
      apply IHl. intros t0 k0 Ht0.
      replace (spec_step (registered s') m1 d0) with (spec_step (registered s) m1 d0).
      - apply spec_step_ext; assumption.
      - destruct d0 as [|c| |ty key op val]; simpl; try reflexivity.
        rewrite Hreg. reflexivity. }
    apply Hext; [|exact Ht].
    replace s' with (fst (apply_doc strict s off d)) by (rewrite E1; reflexivity).
    apply apply_refines.
Qed.

(* a collection never holds a key of another entity type *)
Definition keys_wf (s : mstate) : Prop :=
  forall t c ck, aget (colls s) t = Some c -> In ck (map fst c) -> exists k, ck = composite t k.

Lemma keys_wf_apply strict s off d : keys_wf s -> keys_wf (fst (apply_doc strict s off d)).
Proof.
  intros W. destruct d as [|c| |ty key op val]; simpl; try exact W.
  - destruct c; simpl; try exact W. intros t c ck H Hin. simpl in H. rewrite aget_map_clear in H.
    destruct (aget (colls s) t); inversion H; subst. destruct Hin.
  - destruct (aget (colls s) ty) as [c|] eqn:E.
    + destruct op; simpl; try exact W.
      * destruct val as [v|]; simpl; [|exact W]. intros t c0 ck H Hin. simpl in H.
        destruct (String.eqb ty t) eqn:Et.
        -- apply String.eqb_eq in Et. subst t. rewrite aget_aset_same in H. inversion H; subst.
           apply keys_aset in Hin. destruct Hin as [->|Hin]; [eexists; reflexivity|]. eapply W; eauto.
        -- rewrite aget_aset_other in H by (intro; subst; rewrite String.eqb_refl in Et; discriminate).
           eapply W; eauto.
      * destruct val as [v|]; simpl; [|exact W]. intros t c0 ck H Hin. simpl in H.
        destruct (String.eqb ty t) eqn:Et.
        -- apply String.eqb_eq in Et. subst t. rewrite aget_aset_same in H. inversion H; subst.
           apply keys_aset in Hin. destruct Hin as [->|Hin]; [eexists; reflexivity|]. eapply W; eauto.
        -- rewrite aget_aset_other in H by (intro; subst; rewrite String.eqb_refl in Et; discriminate).
           eapply W; eauto.
      * intros t c0 ck H Hin. simpl in H.
        destruct (String.eqb ty t) eqn:Et.
        -- apply String.eqb_eq in Et. subst t. rewrite aget_aset_same in H. inversion H; subst.
           apply keys_adel in Hin. eapply W; eauto.
        -- rewrite aget_aset_other in H by (intro; subst; rewrite String.eqb_refl in Et; discriminate).
           eapply W; eauto.
    + destruct strict; exact W.
Qed.

(* ---- errors are clean; LastOffset ---- *)
Theorem apply_error_clean strict s off d :
  snd (apply_doc strict s off d) = false ->
  colls (fst (apply_doc strict s off d)) = colls s /\ last (fst (apply_doc strict s off d)) = last s.
Proof.
  destruct d as [|c| |ty key op val]; simpl; auto; try discriminate.
  destruct (aget (colls s) ty); [|destruct strict; simpl; auto; discriminate].
  destruct op; simpl; try discriminate; destruct val; simpl; auto; discriminate.
Qed.

Theorem apply_error_same strict s off d :
  snd (apply_doc strict s off d) = false -> fst (apply_doc strict s off d) = s.
Proof.
  destruct d as [|c| |ty key op val]; simpl; auto; try discriminate.
  destruct (aget (colls s) ty); [|destruct strict; simpl; auto; discriminate].
  destruct op; simpl; try discriminate; destruct val; simpl; auto; discriminate.
Qed.

Theorem apply_ok_last strict s off d :
  snd (apply_doc strict s off d) = true -> last (fst (apply_doc strict s off d)) = off.
Proof.
  destruct d as [|c| |ty key op val]; simpl; auto; try discriminate.
  destruct (aget (colls s) ty); [|destruct strict; simpl; auto; discriminate].
  destruct op; simpl; auto; destruct val; simpl; auto; discriminate.
Qed.

(* LastOffset after calling Apply on every event = position of the last one that returned nil *)
Fixpoint last_ok (init : nat) (evs : list (nat * doc)) (oks : list bool) : nat :=
  match evs, oks with
  | (off, _) :: r, ok :: ro => last_ok (if ok then off else init) r ro
  | _, _ => init
  end.

Theorem run_all_last strict : forall evs s,
  last (fst (run_all strict s evs)) = last_ok (last s) evs (snd (run_all strict s evs)).
Proof.
  induction evs as [|[off d] r IH]; intros s; simpl; [reflexivity|].
  destruct (apply_doc strict s off d) as [s' ok] eqn:E1.
  destruct (run_all strict s' r) as [s'' oks] eqn:E2. simpl.
  specialize (IH s'). rewrite E2 in IH. simpl in IH. rewrite IH.
  f_equal. destruct ok.
  - pose proof (apply_ok_last strict s off d) as H. rewrite E1 in H. apply H. reflexivity.
  - pose proof (apply_error_clean strict s off d) as H. rewrite E1 in H. apply H. reflexivity.
Qed.

(* ---- two sessions = one session ---- *)
Fixpoint sorted_from (lo : nat) (log : list (nat * doc)) : Prop :=
  match log with
  | [] => True
  | e :: r => lo < fst e /\ sorted_from (fst e) r
  end.

Lemma sorted_from_weaken lo lo' log : lo' <= lo -> sorted_from lo log -> sorted_from lo' log.
Proof. destruct log; simpl; [auto|]. intros H [H1 H2]. split; [lia|exact H2]. Qed.

Lemma filter_all_after lo log : sorted_from lo log -> forall x, x <= lo ->
  filter (fun e => Nat.ltb x (fst e)) log = log.
Proof.
  revert lo. induction log as [|e r IH]; intros lo S x Hx; simpl; [reflexivity|].
  destruct S as [S1 S2]. assert (E: Nat.ltb x (fst e) = true) by (apply Nat.ltb_lt; lia).
  rewrite E. f_equal. apply (IH (fst e) S2). lia.
Qed.

Lemma filter_none_upto log : forall lo x, sorted_from lo log ->
  (forall e, In e log -> fst e <= x) -> filter (fun e => Nat.ltb x (fst e)) log = [].
Proof.
  induction log as [|e r IH]; intros lo x S H; simpl; [reflexivity|].
  assert (E: Nat.ltb x (fst e) = false) by (apply Nat.ltb_ge; apply H; left; reflexivity).
  rewrite E. destruct S as [_ S2]. eapply IH; [exact S2|]. intros e' He'. apply H. right. exact He'.
Qed.

Lemma sorted_from_in lo log e : sorted_from lo log -> In e log -> lo < fst e.
Proof.
  revert lo. induction log as [|e0 r IH]; intros lo S H; [destruct H|].
  destruct S as [S1 S2]. destruct H as [->|H]; [exact S1|]. specialize (IH _ S2 H). lia.
Qed.

(* run_until_error over l1 ++ l2 = continue over l2 when l1 had no error, else stop in l1 *)
Lemma run_until_error_app strict : forall l1 l2 s,
  run_until_error strict s (l1 ++ l2) =
  (let '(s1, ok) := run_until_error strict s l1 in
   if ok then run_until_error strict s1 l2 else (s1, false)).
Proof.
  induction l1 as [|[off d] r IH]; intros l2 s; simpl; [reflexivity|].
  destruct (apply_doc strict s off d) as [s' ok]. destruct ok; [apply IH|reflexivity].
Qed.

(* where a session stops: state after processing a prefix, last = offset of the last event of the
   prefix (or unchanged), and the prefix is exactly the events up to that offset *)
Lemma run_until_error_split strict : forall log lo s,
  sorted_from lo log -> last s <= lo ->
  exists done rest, log = done ++ rest /\
    fst (run_until_error strict s log) = fst (run_until_error strict s done) /\
    snd (run_until_error strict s done) = true /\
    (forall e, In e done -> fst e <= last (fst (run_until_error strict s log))) /\
    last s <= last (fst (run_until_error strict s log)) /\
    (forall e, In e rest -> last (fst (run_until_error strict s log)) < fst e) /\
    run_until_error strict (fst (run_until_error strict s done)) rest = run_until_error strict s log.
Proof.
  induction log as [|[off d] r IH]; intros lo s S L; simpl.
  - exists [], []. simpl. repeat split; auto; intros e [].
  - destruct S as [S1 S2]. simpl in S1, S2.
    destruct (apply_doc strict s off d) as [s' ok] eqn:E. destruct ok.
    + assert (Hl: last s' = off).
      { pose proof (apply_ok_last strict s off d) as H. rewrite E in H. apply H. reflexivity. }
      destruct (IH off s' S2 ltac:(lia)) as [done [rest [H1 [H2 [H3 [H4 [H5 [H6 H7]]]]]]]].
      exists ((off, d) :: done), rest. simpl. rewrite E. subst r.
      repeat split; auto.
      * intros e [<-|He]; [simpl; lia|apply H4, He].
      * lia.
    + assert (Hc: s' = s).
      { pose proof (apply_error_same strict s off d) as H. rewrite E in H. apply H. reflexivity. }
      subst s'.
      exists [], ((off, d) :: r). simpl. rewrite E. simpl.
      repeat split; auto; try lia.
      intros e [H|He]; [subst e; simpl; lia|]. pose proof (sorted_from_in _ _ _ S2 He). simpl in *. lia.
Qed.

Definition last_off (init : nat) (l : list (nat * doc)) : nat := fold_left (fun _ e => fst e) l init.

Lemma run_ok_last_off strict : forall l s,
  snd (run_until_error strict s l) = true -> last (fst (run_until_error strict s l)) = last_off (last s) l.
Proof.
  induction l as [|[off d] r IH]; intros s H; simpl in *; [reflexivity|].
  destruct (apply_doc strict s off d) as [s' ok] eqn:E. destruct ok; [|discriminate].
  rewrite (IH s' H). unfold last_off. simpl. f_equal.
  pose proof (apply_ok_last strict s off d) as Hl. rewrite E in Hl. apply Hl. reflexivity.
Qed.

Lemma sorted_app_last_off : forall l1 l2 lo e,
  sorted_from lo (l1 ++ l2) -> In e l2 -> last_off lo l1 < fst e.
Proof.
  induction l1 as [|e1 r IH]; intros l2 lo e S He; simpl in *.
  - eapply sorted_from_in; eauto.
  - destruct S as [_ S]. unfold last_off. simpl. apply (IH l2 (fst e1) e S He).
Qed.

Theorem session_resume strict log1 log2 s :
  last s = 0 -> sorted_from 0 (log1 ++ log2) ->
  let s1 := fst (session strict s log1) in
  fst (session strict s1 (log1 ++ log2)) = fst (session strict s (log1 ++ log2)).
Proof.
  intros L0 S. cbv zeta. unfold session. rewrite L0.
  assert (S1: sorted_from 0 log1).
  { clear -S. revert S. generalize 0. induction log1 as [|e r IH]; intros lo S; simpl in *; [exact I|].
    destruct S as [A B]. split; [exact A|apply IH, B]. }
  rewrite (filter_all_after 0 log1 S1 0 (le_n 0)).
  rewrite (filter_all_after 0 (log1 ++ log2) S 0 (le_n 0)).
  destruct (run_until_error_split strict log1 0 s S1 ltac:(lia))
    as [done [rest [H1 [H2 [H3 [H4 [H5 [H6 H7]]]]]]]].
  set (s1 := fst (run_until_error strict s log1)) in *.
  (* the second session sees exactly rest ++ log2 *)
  assert (Hf: filter (fun e => Nat.ltb (last s1) (fst e)) (log1 ++ log2) = rest ++ log2).
  { subst log1. rewrite <- app_assoc. rewrite filter_app. 
    rewrite <- app_assoc in S.
    assert (Sd: sorted_from 0 done).
    { clear -S. revert S. generalize 0. induction done as [|e r IH]; intros lo S; simpl in *; [exact I|].
      destruct S as [A B]. split; [exact A|apply IH, B]. }
    rewrite (filter_none_upto done 0 (last s1) Sd H4). simpl.
    (* everything in rest ++ log2 is after last s1 *)
    assert (Hall: forall l lo, sorted_from lo l -> (forall e, In e l -> last s1 < fst e) ->
              filter (fun e => Nat.ltb (last s1) (fst e)) l = l).
    { induction l as [|e r IHl]; intros lo Sl Hl; simpl; [reflexivity|].
      assert (E: Nat.ltb (last s1) (fst e) = true) by (apply Nat.ltb_lt; apply Hl; left; reflexivity).
      rewrite E. f_equal. destruct Sl as [_ Sl]. eapply IHl; [exact Sl|]. intros e' He'. apply Hl. right. exact He'. }
    assert (Sr: exists lo, sorted_from lo (rest ++ log2) /\ forall e, In e done -> fst e <= lo).
    { clear -S. revert S. generalize 0. induction done as [|e r IH]; intros lo S; simpl in *.
      - exists lo. split; [exact S|intros e []].
      - destruct S as [A B]. destruct (IH _ B) as [lo' [C D]]. 
        destruct r as [|e2 r2].
        + simpl in *. exists (fst e). split; [exact B|]. intros e' [<-|[]]. lia.
        + exists lo'. split; [exact C|]. intros e' [<-|He']; [|apply D, He'].
          simpl in B. destruct B as [B1 B2]. specialize (D e2 (or_introl eq_refl)). lia. }
    destruct Sr as [lo' [Sr _]].
    apply (Hall _ lo' Sr). intros e He. apply in_app_or in He. destruct He as [He|He]; [apply H6, He|].
    (* e in log2: after everything in done ++ rest; need last s1 < fst e *)
    destruct rest as [|e0 rest'].
    - simpl in *. rewrite app_nil_r in *.
      assert (Hlast: last s1 = last_off (last s) done).
      { rewrite H2. apply run_ok_last_off. exact H3. }
      rewrite Hlast, L0. eapply sorted_app_last_off; eauto.
    - assert (Hlt: last s1 < fst e0) by (apply H6; left; reflexivity).
      assert (He0: fst e0 < fst e).
      { clear -S He. revert S. generalize 0. induction done as [|e2 r IH]; intros lo S.
        - simpl in S. destruct S as [_ S]. eapply sorted_from_in; [exact S|]. apply in_or_app. right. exact He.
        - simpl in S. destruct S as [_ S]. eapply IH; eauto. }
      lia. }
  rewrite Hf.
  (* first session state = state after done; one-shot run = done, then rest ++ log2 *)
  subst log1. rewrite <- app_assoc.
  rewrite (run_until_error_app strict done (rest ++ log2) s).
  destruct (run_until_error strict s done) as [sd okd] eqn:Ed. simpl in H2, H3. subst okd.
  subst s1. rewrite H2. reflexivity.
Qed.
