(* C19 — State messages survive the round trip; bad input is rejected without damage.
   The JSON codec (encoding/json) is not modelled: the model starts from the decoded document
   ([doc] enumerates every outcome of decoding), so "for every byte string" becomes "for every
   decode outcome".  That decoding arbitrary bytes never panics is sampled by the harness only. *)
From Coq Require Import List String Arith Bool.
Import ListNotations.
From Ebu Require Import State.StateModel State.StateProofs.

(* An event that cannot be applied (Apply returns an error) leaves every collection and
   LastOffset unchanged — for every decode outcome and every state. *)
Theorem C19_reject_clean : forall strict s off d,
  snd (apply_doc strict s off d) = false -> fst (apply_doc strict s off d) = s.
Proof. exact apply_error_same. Qed.
Print Assumptions C19_reject_clean.

(* Round trip at the level of decoded documents: a change message that reaches the materializer
   with (type, key, op, value) updates exactly that key of exactly that collection. *)
Theorem C19_change_applied : forall strict s off d,
  smap_eq_on (registered s) (abs (fst (apply_doc strict s off d))) (spec_step (registered s) (abs s) d).
Proof. exact apply_refines. Qed.
Print Assumptions C19_change_applied.

Example C19_nonvacuous :
  let s := fst (apply_doc false (init_state ["u"]%string) 1 (DChange "u" "k" OpInsert (Some 3))) in
  snd (apply_doc true s 2 (DChange "ghost" "k" OpInsert (Some 1))) = false /\
  snd (apply_doc false s 2 (DChange "u" "k" OpUpdate None)) = false /\
  snd (apply_doc false s 2 DBadRoot) = false /\ abs s "u"%string "k"%string = Some 3.
Proof. vm_compute. auto. Qed.
