(* C02 — Subscribe, unsubscribe and publish stay consistent under every interleaving. *)
From Coq Require Import List Arith Bool.
Import ListNotations.
From Ebu Require Import Bus.BusModel Bus.BusInv.

(* In every state reachable by ANY schedule of ANY program: registration identities within a type are unique
   and never reused - no successful subscription is duplicated, and a removed one never comes back. *)
Theorem C02_registrations_unique : forall P cfg s, reachable P cfg s -> reg_wf s.
Proof. exact reg_wf_reachable. Qed.
Print Assumptions C02_registrations_unique.

(* Each registry operation is ONE atomic micro-step (performed under the shard's write lock), so under every
   interleaving it takes effect at one point between its call and its return; its effect is exact: *)
Theorem C02_subscribe_atomic : forall P cfg s a t sp rest s' ls,
  step_instr P cfg s a (IDo (ASub t sp)) rest = Some (s', ls) ->
  handlers_of s' t = handlers_of s t ++ [{| r_id := next_rid s; r_ty := t; r_spec := sp |}] /\
  (forall t', t' <> t -> handlers_of s' t' = handlers_of s t') /\ next_rid s' = S (next_rid s).
Proof. exact subscribe_exact. Qed.
Print Assumptions C02_subscribe_atomic.

(* The publish reads the registry in ONE atomic step (the snapshot under the read lock): a handler registered at
   that step is queued exactly once, one that is not registered at that step is not queued. *)
Theorem C02_snapshot_atomic : forall P cfg s a p rest s' ls,
  step_instr P cfg s a (ISnapshot p) rest = Some (s', ls) ->
  exists tail, assoc_get (code s') a = Some (map (IEntry p) (handlers_of s (pb_ty (get_pub s p))) ++ IRemoveOnce p :: tail) /\
               registry s' = registry s /\ ls = [] /\
               tail = (match c_after_legacy cfg with Some _ => [IAfterLegacy p] | None => [] end) ++
                      (match c_after_ctx cfg with Some _ => [IAfterCtx p] | None => [] end) ++
                      (if c_obs cfg then [IPubDone p] else []) ++ rest.
Proof. exact snapshot_exact. Qed.
Print Assumptions C02_snapshot_atomic.

(* every micro-step preserves uniqueness: the induction step of the invariant, for any actor and instruction *)
Theorem C02_unique_step : forall P cfg s a s' ls, reg_wf s -> mstep P cfg s a = Some (s', ls) -> reg_wf s'.
Proof. exact reg_wf_step. Qed.
Print Assumptions C02_unique_step.

Example C02_nonvacuous :
  let P := {| p_bodies := [(0, {| b_acts := [] |})]; p_filters := []; p_routes := fun _ => 0; p_nshards := 32; p_pfault := fun _ => PfOk |} in
  let sp fn := {| h_fn := fn; h_once := false; h_async := false; h_seq := false; h_ctx := false; h_filter := None; h_body := 0 |} in
  let s := fst (run P cfg0 (init_state [[ASub 0 (sp 0); APub 0 1 CtxBg false]; [ASub 0 (sp 2); AUnsub 0 0]]) [0;1;0;1;1;0;1;1;0;0;0;0;0;1;1]) in
  map r_id (handlers_of s 0) = [1] /\ next_rid s = 2.
Proof. vm_compute. auto. Qed.
