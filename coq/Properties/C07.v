(* C07 — Sequential handlers never overlap and process events in publish order. *)
From Coq Require Import List Arith Bool.
Import ListNotations.
From Ebu Require Import Bus.BusModel Bus.BusInv.

(* Mutual exclusion, for every program and EVERY schedule (concurrent publishers, async deliveries, panics,
   re-entrant calls): two different actors never hold the lock of the same Sequential registration. *)
Theorem C07_mutex : forall P cfg s, reachable P cfg s ->
  forall a b ca cb rid, assoc_get (code s) a = Some ca -> assoc_get (code s) b = Some cb ->
    0 < held rid ca -> 0 < held rid cb -> a = b.
Proof. exact seq_mutex. Qed.
Print Assumptions C07_mutex.

(* ... and the lock discipline behind it: every actor's code is well formed (a call that has not locked yet sits
   at the very front), a held lock is recorded as held by that actor, nobody holds a lock twice. *)
Theorem C07_lock_discipline : forall P cfg s, reachable P cfg s -> linv s.
Proof. exact seq_lock_discipline. Qed.
Print Assumptions C07_lock_discipline.

(* Being inside the body of a Sequential handler means holding its lock (from the entry step to the deferred unlock). *)
Theorem C07_body_holds_lock : forall P cfg s a p h rest s' ls,
  h_seq (r_spec h) = true -> lockfree (IEnter p h :: rest) ->
  (exists mid async r, rest = mid ++ IRecover p h async :: r /\ plain mid) ->
  step_instr P cfg s a (IEnter p h) rest = Some (s', ls) ->
  exists c, assoc_get (code s') a = Some c /\ 0 < held (r_id h) c.
Proof. exact enter_holds_lock. Qed.
Print Assumptions C07_body_holds_lock.

(* Each event is still delivered: the dispatch decisions do not depend on the Sequential option (C01). *)

(* The ordering clause - "for an Async+Sequential handler, events published one after another by the same
   goroutine are processed in publish order" - is FALSE of the faithful model: the second delivery goroutine may
   take the handler's lock first.  Witness (known finding F2), the same schedule the harness forces on the real code: *)
Theorem C07_async_order_refuted :
  exists P cfg threads sched,
    let ls := snd (run P cfg (init_state threads) sched) in
    filter (fun l => match l with LEnter _ _ _ => true | _ => false end) ls = [LEnter 1 0 CtxBg; LEnter 0 0 CtxBg].
Proof.
  exists {| p_bodies := [(0, {| b_acts := [] |})]; p_filters := []; p_routes := fun _ => 0; p_nshards := 32; p_pfault := fun _ => PfOk |},
         cfg0,
         [[ASub 0 {| h_fn := 0; h_once := false; h_async := true; h_seq := true; h_ctx := false; h_filter := None; h_body := 0 |};
           APub 0 1 CtxBg false; APub 0 2 CtxBg false; AWait]],
         (repeat 0 30 ++ repeat 2 10 ++ repeat 1 10).
  vm_compute. reflexivity.
Qed.
Print Assumptions C07_async_order_refuted.

(* What does hold about order (partial): a synchronous Sequential handler runs on the publisher's own goroutine,
   inside the publish call - so events published one after another by one goroutine reach it in that order; and an
   async delivery that has taken the lock before the next publish is ahead of it (C07_mutex). *)
Example C07_nonvacuous :
  let P := {| p_bodies := [(0, {| b_acts := [] |})]; p_filters := []; p_routes := fun _ => 0; p_nshards := 32; p_pfault := fun _ => PfOk |} in
  let sp := {| h_fn := 0; h_once := false; h_async := false; h_seq := true; h_ctx := false; h_filter := None; h_body := 0 |} in
  (* two publishers: the second blocks on the handler's lock while the first is inside *)
  let s := fst (run P cfg0 (init_state [[ASub 0 sp; APub 0 1 CtxBg false]; [APub 0 2 CtxBg false]]) (repeat 0 10 ++ repeat 1 8)) in
  seqlocks s = [(0, 0)] /\ mstep P cfg0 s 1 = None.
Proof. vm_compute. auto. Qed.
