(* C07 — Sequential handlers never overlap and process events in publish order. *)
From Coq Require Import List Arith Bool.
Import ListNotations.
From Ebu Require Import Bus.BusModel Bus.BusInv.

(* Mutual exclusion, for every program and EVERY schedule (concurrent publishers, async deliveries, panics,
   re-entrant calls): two different actors never hold the lock of the same Sequential registration. *)
Theorem C07_mutex : forall P cfg s, reachable P cfg s ->
  forall a b ca cb rid, assoc_get (code s) a = Some ca -> assoc_get (code s) b = Some cb ->
    0 < held rid ca -> 0 < held rid cb -> a = b.
Proof. exact seq_mutex. Qed.
Print Assumptions C07_mutex.

(* ... and the lock discipline behind it: every actor's code is well formed (a call that has not locked yet sits
   at the very front), a held lock is recorded as held by that actor, nobody holds a lock twice. *)
Theorem C07_lock_discipline : forall P cfg s, reachable P cfg s -> linv s.
Proof. exact seq_lock_discipline. Qed.
Print Assumptions C07_lock_discipline.

(* Being inside the body of a Sequential handler means holding its lock (from the entry step to the deferred unlock). *)
Theorem C07_body_holds_lock : forall P cfg s a p h rest s' ls,
  h_seq (r_spec h) = true -> lockfree (IEnter p h :: rest) ->
  (exists mid async r, rest = mid ++ IRecover p h async :: r /\ plain mid) ->
  step_instr P cfg s a (IEnter p h) rest = Some (s', ls) ->
  exists c, assoc_get (code s') a = Some c /\ 0 < held (r_id h) c.
Proof. exact enter_holds_lock. Qed.
Print Assumptions C07_body_holds_lock.

(* Each event is still delivered: the dispatch decisions do not depend on the Sequential option (C01). *)

(* The ordering clause - "for an Async+Sequential handler, events published one after another by the same goroutine
   are processed in publish order".  Deliveries to such a handler are queued at dispatch, on the publishing goroutine
   (so one goroutine's publishes are queued in the order it made them: its code is sequential), and:

   over every schedule of every program the queue discipline holds - everybody in a queue is an unfinished delivery,
   everybody behind the head has not started, nobody is queued twice or in two queues, a fresh delivery of a
   Sequential handler is in its handler's queue - *)
Theorem C07_turn_queue : forall P cfg s, reachable P cfg s -> qinv s.
Proof. exact turn_queue_discipline. Qed.
Print Assumptions C07_turn_queue.

(* - the dispatch step appends the new delivery to the end of the handler's queue and of the dispatch log, on the
   publishing goroutine - *)
Theorem C07_dispatch_queues_at_end : forall P cfg s a p h rest s' ls,
  h_async (r_spec h) = true -> h_seq (r_spec h) = true ->
  step_instr P cfg s a (IDispatch p h) rest = Some (s', ls) ->
  turnlog s' = turnlog s ++ [(r_id h, next_actor s)] /\ queue s' (r_id h) = queue s (r_id h) ++ [next_actor s] /\
  (a <> next_actor s -> assoc_get (code s') (next_actor s) = Some [ITaskStart p h]) /\
  assoc_get (code s') a = Some rest.
Proof. exact dispatch_queues_at_end. Qed.
Print Assumptions C07_dispatch_queues_at_end.

(* - what has been dispatched to the handler is, in order, what has finished followed by what is still queued: the
   deliveries finish in exactly the order in which they were dispatched - *)
Theorem C07_async_sequential_fifo : forall P cfg s, reachable P cfg s ->
  forall rid, on rid (turnlog s) = on rid (turndone s) ++ queue s rid.
Proof. exact async_sequential_fifo. Qed.
Print Assumptions C07_async_sequential_fifo.

(* - and a delivery starts (so its handler body runs) only when everything dispatched to the handler before it has
   finished: at its start step it is the first unfinished entry of the dispatch log. *)
Theorem C07_async_sequential_starts_in_turn : forall P cfg s a p h rest s' ls, reachable P cfg s ->
  h_seq (r_spec h) = true ->
  step_instr P cfg s a (ITaskStart p h) rest = Some (s', ls) ->
  exists later, on (r_id h) (turnlog s) = on (r_id h) (turndone s) ++ a :: later.
Proof. exact async_sequential_starts_in_turn. Qed.
Print Assumptions C07_async_sequential_starts_in_turn.

(* - and, over every schedule, whoever is about to enter the body of an Async+Sequential handler heads the handler's
   queue: by the FIFO theorem every delivery dispatched to the handler before this one has finished. *)
Theorem C07_async_sequential_enters_in_turn : forall P cfg s a p h rest, reachable P cfg s ->
  h_async (r_spec h) = true -> h_seq (r_spec h) = true ->
  assoc_get (code s) a = Some (IEnter p h :: rest) -> at_head (queue s (r_id h)) a = true.
Proof. exact async_sequential_enters_in_turn. Qed.
Print Assumptions C07_async_sequential_enters_in_turn.

Theorem C07_queued_deliveries_have_not_started : forall P cfg s, reachable P cfg s ->
  forall rid hd more b, queue s rid = hd :: more -> In b more ->
    exists p h, assoc_get (code s) b = Some [ITaskStart p h] /\ r_id h = rid /\ h_seq (r_spec h) = true.
Proof. exact queued_deliveries_have_not_started. Qed.
Print Assumptions C07_queued_deliveries_have_not_started.

(* The schedule that used to reverse the order (finding F2, repaired in /repo: the second delivery goroutine is run
   first) now leaves the second delivery waiting: it is not enabled until the first has finished. *)
Example C07_second_delivery_waits :
  let P := {| p_bodies := [(0, {| b_acts := [] |})]; p_filters := []; p_routes := fun _ => 0; p_nshards := 32; p_pfault := fun _ => PfOk |} in
  let threads := [[ASub 0 {| h_fn := 0; h_once := false; h_async := true; h_seq := true; h_ctx := false; h_filter := None; h_body := 0 |};
                   APub 0 1 CtxBg false; APub 0 2 CtxBg false; AWait]] in
  let s := fst (run P cfg0 (init_state threads) (repeat 0 30)) in
  queue s 0 = [1; 2] /\ mstep P cfg0 s 2 = None /\
  filter (fun l => match l with LEnter _ _ _ => true | _ => false end)
         (snd (run P cfg0 (init_state threads) (repeat 0 30 ++ repeat 2 10 ++ repeat 1 10 ++ repeat 2 10))) =
    [LEnter 0 0 CtxBg; LEnter 1 0 CtxBg].
Proof. vm_compute. auto. Qed.

(* A synchronous Sequential handler runs on the publisher's own goroutine, inside the publish call - so events
   published one after another by one goroutine reach it in that order. *)
Example C07_nonvacuous :
  let P := {| p_bodies := [(0, {| b_acts := [] |})]; p_filters := []; p_routes := fun _ => 0; p_nshards := 32; p_pfault := fun _ => PfOk |} in
  let sp := {| h_fn := 0; h_once := false; h_async := false; h_seq := true; h_ctx := false; h_filter := None; h_body := 0 |} in
  (* two publishers: the second blocks on the handler's lock while the first is inside *)
  let s := fst (run P cfg0 (init_state [[ASub 0 sp; APub 0 1 CtxBg false]; [APub 0 2 CtxBg false]]) (repeat 0 10 ++ repeat 1 8)) in
  seqlocks s = [(0, 0)] /\ mstep P cfg0 s 1 = None.
Proof. vm_compute. auto. Qed.
