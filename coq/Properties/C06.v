(* C06 — Wait and Shutdown return only after all asynchronous work has finished.
   Statements over EVERY schedule (list of actors) and every program, at micro-step granularity. *)
From Coq Require Import List Arith Bool.
Import ListNotations.
From Ebu Require Import Bus.BusModel Bus.BusInv.

(* The wait counter equals the number of asynchronous deliveries that were spawned and have not run their
   wg.Done, in every reachable state; the increment is part of the publisher's own step (IDispatch). *)
Theorem C06_inflight_counts : forall P cfg s, reachable P cfg s -> inflight s = total (code s) /\ winv s.
Proof. exact inflight_counts. Qed.
Print Assumptions C06_inflight_counts.

(* Every delivery goroutine carries weight 1 from the step that spawns it until its wg.Done. *)
Theorem C06_delivery_lifecycle : forall P cfg s, reachable P cfg s -> task_inv s.
Proof. exact task_inv_reachable. Qed.
Print Assumptions C06_delivery_lifecycle.

(* Wait - and the goroutine Shutdown waits on - can proceed only when every asynchronous delivery spawned so
   far, by any publish at any nesting depth (including those started by async handlers), has finished. *)
Theorem C06_wait : forall P cfg s a rest s' ls,
  reachable P cfg s ->
  (assoc_get (code s) a = Some (IDo AWait :: rest) \/ exists sid, assoc_get (code s) a = Some (IWaiterDone sid :: rest)) ->
  mstep P cfg s a = Some (s', ls) ->
  forall p rid t, In (p, rid, t) (tasks s) -> assoc_get (code s) t = Some [].
Proof. exact wait_only_when_all_done. Qed.
Print Assumptions C06_wait.

(* ... in particular no Async+Sequential delivery is still queued behind another one *)
Theorem C06_wait_queues_empty : forall P cfg s a rest s' ls,
  reachable P cfg s ->
  (assoc_get (code s) a = Some (IDo AWait :: rest) \/ exists sid, assoc_get (code s) a = Some (IWaiterDone sid :: rest)) ->
  mstep P cfg s a = Some (s', ls) ->
  forall rid, queue s rid = [].
Proof. exact wait_only_when_queues_empty. Qed.
Print Assumptions C06_wait_queues_empty.

(* The store is closed only by a Shutdown that found its waiter done, in the very step that returns nil;
   the context-error branch never closes it. *)
Theorem C06_shutdown_close : forall P cfg s a i rest s' ls,
  step_instr P cfg s a i rest = Some (s', ls) ->
  store_closed s' = store_closed s \/
  (exists sid c, i = IShutdownSelect sid c /\ memb sid (waiters_done s) = true /\
                 In (LRes (AShutdown c) 1) ls /\ store_closed s' = S (store_closed s)).
Proof. exact close_only_on_nil_shutdown. Qed.
Print Assumptions C06_shutdown_close.

Example C06_nonvacuous :
  let P := {| p_bodies := [(0, {| b_acts := [] |})]; p_filters := []; p_routes := fun _ => 0; p_nshards := 32; p_pfault := fun _ => PfOk |} in
  let sp := {| h_fn := 0; h_once := false; h_async := true; h_seq := false; h_ctx := false; h_filter := None; h_body := 0 |} in
  let s := fst (run P cfg0 (init_state [[ASub 0 sp; APub 0 1 CtxBg false; AWait]]) [0;0;0;0;0;0;0;0;0;0]) in
  inflight s = 1 /\ tasks s = [(0, 0, 1)] /\ mstep P cfg0 s 0 = None /\
  inflight (fst (run P cfg0 s [1;1;1;1])) = 0.
Proof. vm_compute. auto. Qed.
