(* C03 — Concurrent use of the API is free of data races and deadlocks.  PARTIAL.
   The data-race half lives in the Go memory model and cannot be stated about the Gallina model (whose micro-steps are
   atomic): it is sampled by the race suite under the Go race detector, not proved.
   Deadlock half, on the small-step bus model (every schedule = every list of actors, every program): what is proved
   here are the facts that exclude the ways a bus operation can block for ever -
     - a handler mutex is held by at most one goroutine (C03_seq_lock_owner), and whoever is recorded as its holder still
       has the matching deferred unlock (or the recover frame that produces it) in its code: no orphaned Sequential
       lock (C03_no_orphaned_handler_lock); the holder of the store mutex can always step (C03_store_lock_holder_runs);
     - Wait - and the goroutine Shutdown waits on - is blocked only while a spawned delivery has not finished, and the
       counter it waits on is exactly the number of such deliveries (C03_wait_blocks_only_on_running_deliveries);
     - the only instructions that can block at all are taking a Sequential handler's mutex, taking the store mutex,
       Wait / Shutdown's waiter with deliveries in flight, Shutdown's select, and the start of an Async+Sequential
       delivery that is not yet at the head of its handler's queue (C03_only_these_block); the head of such a queue is
       always an unfinished delivery (C07_turn_queue), so that wait ends when the head finishes;
   these combine into C03_progress: for programs whose handlers, filters and hooks do not call Wait or Shutdown, some
   goroutine can always step in every reachable state whose lock waits are acyclic (the documented exception is a
   cycle) and in which no goroutine has died of an unrecovered panic; the exception itself is exhibited
   (C03_self_delivery_exception).  The waits of Async+Sequential deliveries for their turn never close a cycle
   (C03_progress_mutex_waits_only), and for programs whose Sequential handlers do not publish the acyclicity hypothesis
   is discharged altogether (C03_progress_when_sequential_handlers_do_not_publish, C03_leaf_programs_never_deadlock).
   NOT proved: acyclicity for programs whose Sequential handlers publish (which of them can be re-entered by their own
   publishes); there it is checked per observed run by the deadlock oracle of the suites. *)
From Coq Require Import List Arith Bool.
Import ListNotations.
From Ebu Require Import Bus.BusModel Bus.BusInv Bus.BusLeaf.

Theorem C03_seq_lock_owner : forall P cfg s, reachable P cfg s ->
  forall a b ca cb rid, assoc_get (code s) a = Some ca -> assoc_get (code s) b = Some cb ->
    0 < held rid ca -> 0 < held rid cb -> a = b.
Proof. exact seq_mutex. Qed.
Print Assumptions C03_seq_lock_owner.

Theorem C03_wait_blocks_only_on_running_deliveries : forall P cfg s, reachable P cfg s -> inflight s = total (code s) /\ winv s.
Proof. exact inflight_counts. Qed.
Print Assumptions C03_wait_blocks_only_on_running_deliveries.

(* no orphaned handler mutex: over every schedule of every program, a Sequential handler's mutex that is held is held
   by a goroutine that still carries the matching deferred unlock (or the recover frame that produces it) - a panic,
   a cancelled context or a re-entrant call never leaves it locked for ever *)
Theorem C03_no_orphaned_handler_lock : forall P cfg s, reachable P cfg s ->
  forall rid a, assoc_get (seqlocks s) rid = Some a -> exists c, assoc_get (code s) a = Some c /\ 0 < held rid c.
Proof. exact no_orphaned_handler_lock. Qed.
Print Assumptions C03_no_orphaned_handler_lock.

(* the store mutex is held only across the store's Append: its holder can always take its next step *)
Theorem C03_store_lock_holder_runs : forall P cfg s, reachable P cfg s ->
  forall a, store_mu s = Some a -> exists s' ls, mstep P cfg s a = Some (s', ls).
Proof. exact store_lock_holder_runs. Qed.
Print Assumptions C03_store_lock_holder_runs.

(* every instruction other than the ones listed is enabled in every state; the last one is an Async+Sequential delivery
   waiting for the delivery dispatched before it *)
Theorem C03_only_these_block : forall P cfg s a i rest,
  step_instr P cfg s a i rest = None ->
  (exists h, i = ILock h) \/ (exists p, i = IPersistLock p) \/ i = IDo AWait \/ (exists sid, i = IWaiterDone sid) \/
  (exists sid c, i = IShutdownSelect sid c) \/ i = ICrashed \/
  (exists p h, i = ITaskStart p h /\ h_seq (r_spec h) = true /\ at_head (queue s (r_id h)) a = false).
Proof. exact only_these_block. Qed.
Print Assumptions C03_only_these_block.

(* a Shutdown waiting in its select still has its waiter goroutine (or the waiter has already reported) *)
Theorem C03_shutdown_has_its_waiter : forall P cfg s, reachable P cfg s ->
  forall a sid c rest, assoc_get (code s) a = Some (IShutdownSelect sid c :: rest) ->
    memb sid (waiters_done s) = true \/ exists w r, assoc_get (code s) w = Some (IWaiterDone sid :: r).
Proof. exact shutdown_has_its_waiter. Qed.
Print Assumptions C03_shutdown_has_its_waiter.

(* in programs whose handlers, filters and hooks do not call Wait or Shutdown (the property lets them publish,
   subscribe, unsubscribe and clear), a goroutine sitting in Wait / Shutdown is never an in-flight delivery and never
   holds a handler mutex: these instructions only occur below every delivery frame *)
Theorem C03_waiting_goroutines_are_outside_handlers : forall P cfg s, Pwf P -> reachable P cfg s ->
  forall a i rest, assoc_get (code s) a = Some (i :: rest) -> waitish i = true ->
    weight (i :: rest) = 0 /\ forall rid, held rid (i :: rest) = 0.
Proof. exact waiting_goroutines_are_outside_handlers. Qed.
Print Assumptions C03_waiting_goroutines_are_outside_handlers.

(* PROGRESS (no deadlock), over every schedule of every program whose handlers, filters and hooks do not call Wait or
   Shutdown: in a reachable state in which
     - the goroutines waiting for handler mutexes, and the Async+Sequential deliveries waiting for the delivery queued
       before them, do not wait in a cycle (rank decreases along "waits for the holder" / "waits for the head of its
       queue"); the documented exception is exactly such a cycle, see C03_self_delivery_exception, and
     - no goroutine has died of an unrecovered panic (which in Go ends the whole process),
   some goroutine can take a step whenever some goroutine is unfinished. *)
Theorem C03_progress : forall P cfg s, Pwf P -> reachable P cfg s ->
  forall rank : actor -> nat,
  (forall a h rest b, assoc_get (code s) a = Some (ILock h :: rest) -> assoc_get (seqlocks s) (r_id h) = Some b -> rank b < rank a) ->
  (forall a p h rest b more, assoc_get (code s) a = Some (ITaskStart p h :: rest) ->
     h_seq (r_spec h) = true -> queue s (r_id h) = b :: more -> b <> a -> rank b < rank a) ->
  (forall a rest, assoc_get (code s) a <> Some (ICrashed :: rest)) ->
  (exists a i rest, assoc_get (code s) a = Some (i :: rest)) ->
  exists b s' ls, mstep P cfg s b = Some (s', ls).
Proof. exact progress. Qed.
Print Assumptions C03_progress.

(* ... and the turn waits never close a cycle (a delivery that waits for its turn holds nothing, and only the head of a
   queue is ever waited for): the acyclicity hypothesis on handler-mutex waits alone suffices.  The ordering of
   Async+Sequential deliveries adds no way to deadlock. *)
Theorem C03_progress_mutex_waits_only : forall P cfg s, Pwf P -> reachable P cfg s ->
  forall rank : actor -> nat,
  (forall a h rest b, assoc_get (code s) a = Some (ILock h :: rest) -> assoc_get (seqlocks s) (r_id h) = Some b -> rank b < rank a) ->
  (forall a rest, assoc_get (code s) a <> Some (ICrashed :: rest)) ->
  (exists a i rest, assoc_get (code s) a = Some (i :: rest)) ->
  exists b s' ls, mstep P cfg s b = Some (s', ls).
Proof. exact progress_mutex_waits_only. Qed.
Print Assumptions C03_progress_mutex_waits_only.

(* PROGRESS without any hypothesis about cycles, for a natural class of programs: those whose Sequential handlers do not
   publish (every subscription of a Sequential handler made anywhere in the program text - by the threads, by handler
   or hook bodies, by filters - is to a body without a publish action; handlers that are not Sequential, filters, hooks
   and the panic handler may publish as they like).  In every run of such a program, as long as no goroutine has died
   of an unrecovered panic, some goroutine can take a step whenever one is unfinished: the frames of Sequential
   handlers never nest, so whoever waits for a handler mutex holds none. *)
Theorem C03_progress_when_sequential_handlers_do_not_publish : forall P cfg threads sched,
  Pwf P -> Pleaf P -> (forall l, In l threads -> okacts P l = true) ->
  let s := fst (run P cfg (init_state threads) sched) in
  (forall a rest, assoc_get (code s) a <> Some (ICrashed :: rest)) ->
  (exists a i rest, assoc_get (code s) a = Some (i :: rest)) ->
  exists b s' ls, mstep P cfg s b = Some (s', ls).
Proof. exact progress_when_sequential_handlers_do_not_publish. Qed.
Print Assumptions C03_progress_when_sequential_handlers_do_not_publish.

(* ... and when, moreover, only handler bodies panic (not the threads' own code, hooks, filters or the panic handler), no
   goroutine ever dies of an unrecovered panic either: such programs never deadlock - in every reachable state of every
   schedule some goroutine can step as long as one is unfinished *)
Theorem C03_leaf_programs_never_deadlock : forall P cfg threads sched,
  Pwf P -> Pleaf P -> Ppanic P cfg ->
  (forall l, In l threads -> okacts P l = true) -> (forall l, In l threads -> nopanicb l = true) ->
  let s := fst (run P cfg (init_state threads) sched) in
  (exists a i rest, assoc_get (code s) a = Some (i :: rest)) ->
  exists b s' ls, mstep P cfg s b = Some (s', ls).
Proof. exact leaf_programs_never_deadlock. Qed.
Print Assumptions C03_leaf_programs_never_deadlock.

(* the class is not empty: a Sequential handler that only queries the registry, an ordinary handler that publishes *)
Example C03_leaf_program :
  let P := {| p_bodies := [(0, {| b_acts := [] |}); (1, {| b_acts := [APub 1 5 CtxBg false] |}); (2, {| b_acts := [ACount 0] |})];
              p_filters := []; p_routes := fun _ => 0; p_nshards := 32; p_pfault := fun _ => PfOk |} in
  let sq := {| h_fn := 0; h_once := false; h_async := false; h_seq := true; h_ctx := false; h_filter := None; h_body := 2 |} in
  let pl := {| h_fn := 2; h_once := false; h_async := false; h_seq := false; h_ctx := false; h_filter := None; h_body := 1 |} in
  Pleaf P /\ Pwf P /\ okacts P [ASub 0 sq; ASub 0 pl; ASub 1 sq; APub 0 1 CtxBg false] = true.
Proof.
  cbv zeta. split; [|split; [|reflexivity]].
  - split; [|intros f fl E; discriminate E].
    intros b. destruct b as [|[|[|b]]]; reflexivity.
  - split; [|intros f fl E; discriminate E].
    intros b a. destruct b as [|[|[|b]]]; cbn; intros H; repeat (destruct H as [<-|H]; [reflexivity|]); destruct H.
Qed.

(* the documented exception: a synchronous Sequential handler publishes an event that is delivered back to itself;
   the goroutine then waits for the mutex it holds itself, for ever *)
Theorem C03_self_delivery_exception :
  let P := {| p_bodies := [(0, {| b_acts := [] |}); (1, {| b_acts := [APub 0 2 CtxBg false] |})]; p_filters := [];
              p_routes := fun _ => 0; p_nshards := 32; p_pfault := fun _ => PfOk |} in
  let sp := {| h_fn := 0; h_once := false; h_async := false; h_seq := true; h_ctx := false; h_filter := None; h_body := 1 |} in
  let s := fst (run P cfg0 (init_state [[ASub 0 sp; APub 0 1 CtxBg false]]) (repeat 0 40)) in
  mstep P cfg0 s 0 = None /\
  (exists h rest, assoc_get (code s) 0 = Some (ILock h :: rest) /\ assoc_get (seqlocks s) (r_id h) = Some 0).
Proof. exact self_delivery_blocks. Qed.
Print Assumptions C03_self_delivery_exception.
