(* C08 — Cancellation, context propagation and publish hooks behave predictably. *)
From Coq Require Import List Arith Bool.
Import ListNotations.
From Ebu Require Import Bus.BusModel Bus.BusInv.

(* Every publish - with or without handlers, cancelled or not - runs: observability start, the legacy before
   hook, the context-aware before slot, THEN the snapshot; and (C01_snapshot_exact) after the last queued
   handler: once-removal, legacy after hook, context-aware after hook, observability complete. Each exactly once. *)
Theorem C08_publish_shape : forall P cfg s a t v c any rest s' ls,
  step_instr P cfg s a (IDo (APub t v c any)) rest = Some (s', ls) ->
  assoc_get (code s') a =
    Some ((if c_obs cfg then [IPubStart (next_pid s)] else []) ++
          (match c_before_legacy cfg with Some _ => [IBeforeLegacy (next_pid s)] | None => [] end) ++
          (match c_before_ctx cfg with [] => [] | st => [IBeforeCtx (next_pid s) st] end) ++
          [ISnapshot (next_pid s)] ++ rest) /\
  get_pub s' (next_pid s) = {| pb_ty := t; pb_val := v; pb_ctx := c; pb_any := any; pb_claimed := [] |} /\ ls = [].
Proof. exact publish_shape. Qed.
Print Assumptions C08_publish_shape.

Theorem C08_after_hooks : forall P cfg s a p rest s' ls,
  step_instr P cfg s a (ISnapshot p) rest = Some (s', ls) ->
  exists tail, assoc_get (code s') a = Some (map (IEntry p) (handlers_of s (pb_ty (get_pub s p))) ++ IRemoveOnce p :: tail) /\
               registry s' = registry s /\ ls = [] /\
               tail = (match c_after_legacy cfg with Some _ => [IAfterLegacy p] | None => [] end) ++
                      (match c_after_ctx cfg with Some _ => [IAfterCtx p] | None => [] end) ++
                      (if c_obs cfg then [IPubDone p] else []) ++ rest.
Proof. exact snapshot_exact. Qed.
Print Assumptions C08_after_hooks.

(* A cancelled context: a synchronous handler is not started (the check is the last decision before the call),
   a Once handler is not even claimed, an asynchronous delivery runs nothing but wg.Done. *)
Theorem C08_cancelled_decisions : forall P cfg s a p h rest,
  (forall s' ls, step_instr P cfg s a (IFilterDone p h) rest = Some (s', ls) ->
     assoc_get (code s') a = Some (if filter_accepts P h (get_pub s p) then IClaim p h :: rest else rest)) /\
  (forall s' ls, step_instr P cfg s a (IClaim p h) rest = Some (s', ls) ->
     assoc_get (code s') a =
       Some (if h_once (r_spec h)
             then (if is_cancelled s (pb_ctx (get_pub s p)) then rest
                   else if memb (r_id h) (executed s) then rest else IDispatch p h :: rest)
             else IDispatch p h :: rest)) /\
  (forall s' ls, h_async (r_spec h) = false -> step_instr P cfg s a (IDispatch p h) rest = Some (s', ls) ->
     assoc_get (code s') a = Some (if is_cancelled s (pb_ctx (get_pub s p)) then rest
                                   else call_handler P p h false (c_obs cfg) ++ rest)).
Proof. exact entry_decisions. Qed.
Print Assumptions C08_cancelled_decisions.

Theorem C08_async_cancelled : forall P cfg s a p h rest s' ls,
  step_instr P cfg s a (ITaskStart p h) rest = Some (s', ls) ->
  assoc_get (code s') a = Some (if is_cancelled s (pb_ctx (get_pub s p)) && negb (h_once (r_spec h)) then ITaskDone :: rest
                                else call_handler P p h true (c_obs cfg) ++ rest) /\ ls = [] /\
  (h_seq (r_spec h) = true -> at_head (queue s (r_id h)) a = true).
Proof. exact task_start_decision. Qed.
Print Assumptions C08_async_cancelled.

(* Context-aware handlers are entered with the publish context (its values and its cancellation). *)
Theorem C08_ctx_descends : forall P cfg s a p h rest s' ls,
  step_instr P cfg s a (IEnter p h) rest = Some (s', ls) ->
  ls = [LEnter p (r_id h) (if h_ctx (r_spec h) then pb_ctx (get_pub s p) else CtxBg)].
Proof. exact enter_ctx. Qed.
Print Assumptions C08_ctx_descends.

Example C08_nonvacuous :
  let P := {| p_bodies := [(0, {| b_acts := [] |}); (1, {| b_acts := [ACancel 1] |})]; p_filters := [];
              p_routes := fun _ => 0; p_nshards := 32; p_pfault := fun _ => PfOk |} in
  let sp b := {| h_fn := b; h_once := false; h_async := false; h_seq := false; h_ctx := true; h_filter := None; h_body := b |} in
  let cfg := cfg_of [OBeforeLegacy 0; OAfterCtx 0] in
  let '(s, ls) := run P cfg (init_state [[ASub 0 (sp 1); ASub 0 (sp 0); APub 0 1 (CtxId 1) false; APub 0 2 (CtxId 1) false]]) (repeat 0 60) in
  (* the first handler cancels: the second is not started; the next publish on the cancelled context runs none; hooks always run *)
  filter (fun l => match l with LEnter _ _ _ | LHook _ _ => true | _ => false end) ls =
    [LHook 0 0; LEnter 0 0 (CtxId 1); LHook 0 3; LHook 1 0; LHook 1 3].
Proof. vm_compute. auto. Qed.

(* cancellation is permanent: once a context is cancelled it stays cancelled, over every schedule - so a context that was
   already cancelled when PublishContext was called is cancelled at every later per-handler check of that publish
   (C08_cancelled_decisions, C08_async_cancelled), and no handler of that publish starts *)
Theorem C08_cancellation_is_permanent : forall P cfg c sched s,
  is_cancelled s c = true -> is_cancelled (fst (run P cfg s sched)) c = true.
Proof. exact cancellation_is_permanent_run. Qed.
Print Assumptions C08_cancellation_is_permanent.

(* Run level, over EVERY schedule of every program: a publish made with a context that is already cancelled enters no
   handler at all - synchronous or asynchronous, Once or not - whatever happens afterwards.  s is any reachable state
   in which goroutine a is about to execute the publish (the context c is cancelled in s); the entry log of every
   continuation is free of entries for that publish. *)
Theorem C08_precancelled_publish_enters_nothing : forall P cfg s a t v c any rest s1 ls sched,
  reachable P cfg s ->
  assoc_get (code s) a = Some (IDo (APub t v c any) :: rest) -> is_cancelled s c = true ->
  mstep P cfg s a = Some (s1, ls) ->
  forall h, ~ In (next_pid s, h) (entered (fst (run P cfg s1 sched))).
Proof. exact precancelled_publish_enters_nothing. Qed.
Print Assumptions C08_precancelled_publish_enters_nothing.

(* non-vacuity: sync, async and Once handlers, a context cancelled before the publish: nobody is entered; the same
   publish with a live context enters all three *)
Example C08_precancelled_example :
  let P := {| p_bodies := [(0, {| b_acts := [] |})]; p_filters := []; p_routes := fun _ => 0; p_nshards := 32; p_pfault := fun _ => PfOk |} in
  let sp o a := {| h_fn := 0; h_once := o; h_async := a; h_seq := false; h_ctx := true; h_filter := None; h_body := 0 |} in
  let subs := [ASub 0 (sp false false); ASub 0 (sp false true); ASub 0 (sp true false)] in
  let sched := repeat 0 60 ++ repeat 1 10 ++ repeat 0 10 in
  entered (fst (run P cfg0 (init_state [subs ++ [ACancel 1; APub 0 7 (CtxId 1) false; AWait]]) sched)) = [] /\
  length (entered (fst (run P cfg0 (init_state [subs ++ [APub 0 7 (CtxId 1) false; AWait]]) sched))) = 3.
Proof. vm_compute. auto. Qed.
