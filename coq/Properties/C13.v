(* C13 — Persistence failures are contained, reported once and never corrupt the log. *)
From Coq Require Import List Arith Bool.
Import ListNotations.
From Ebu Require Import Bus.BusModel Bus.BusInv.

(* An event without JSON encoding: no append attempt, the error handler (if set) exactly once, and the publish
   goes on; otherwise exactly one append attempt under the store lock. *)
Theorem C13_marshal_decision : forall P cfg s a p rest s' ls,
  c_store cfg = true ->
  step_instr P cfg s a (IPersistMarshal p) rest = Some (s', ls) ->
  ls = [] /\ store_log s' = store_log s /\ last_offset s' = last_offset s /\
  assoc_get (code s') a =
    Some (match p_pfault P (pb_val (get_pub s p)) with
          | PfUnencodable => (if c_persist_err_handler cfg then [IPersistErr p] else []) ++ rest
          | _ => (if c_obs cfg then [IPersistObsStart p] else []) ++ IPersistLock p :: rest
          end).
Proof. exact persist_marshal_decision. Qed.
Print Assumptions C13_marshal_decision.

(* When Append has returned: a rejected or timed-out append leaves the log and lastOffset exactly as they were
   (nothing partial, no retry), a successful one adds exactly one record and moves lastOffset to it; the lock is
   released in both cases; the error handler is queued exactly once exactly when the append failed; whatever
   followed (the snapshot and the delivery of the event) is untouched. *)
Theorem C13_append_effect : forall P cfg s a p rest s' ls,
  step_instr P cfg s a (IPersistAppendDone p) rest = Some (s', ls) ->
  let r := get_pub s p in
  let failed := match p_pfault P (pb_val r) with PfOk => false | _ => true end in
  store_log s' = (if failed then store_log s else store_log s ++ [(pb_ty r, pb_val r)]) /\
  last_offset s' = (if failed then last_offset s else length (store_log s')) /\
  store_mu s' = None /\ ls = [] /\
  assoc_get (code s') a =
    Some ((if c_obs cfg then [IPersistObsDone p failed] else []) ++
          (if failed && c_persist_err_handler cfg then [IPersistErr p] else []) ++ rest).
Proof. exact persist_append_effect. Qed.
Print Assumptions C13_append_effect.

(* Over every schedule the log only ever grows, by exactly that step: offsets keep increasing. *)
Theorem C13_log_append_only : forall P cfg s a i rest s' ls,
  step_instr P cfg s a i rest = Some (s', ls) ->
  store_log s' = store_log s \/ exists p, i = IPersistAppendDone p /\ store_log s' = store_log s ++ [(pb_ty (get_pub s p), pb_val (get_pub s p))].
Proof. exact log_append_only. Qed.
Print Assumptions C13_log_append_only.

Example C13_nonvacuous :
  let P := {| p_bodies := [(0, {| b_acts := [] |})]; p_filters := []; p_routes := fun _ => 0; p_nshards := 32;
              p_pfault := fun v => match v with 1 => PfReject | 2 => PfUnencodable | 3 => PfTimeout | _ => PfOk end |} in
  let sp := {| h_fn := 0; h_once := false; h_async := false; h_seq := false; h_ctx := false; h_filter := None; h_body := 0 |} in
  let cfg := cfg_of [OStore; OPersistErrHandler] in
  let '(s, ls) := run P cfg (init_state [[ASub 0 sp; APub 0 1 CtxBg false; APub 0 2 CtxBg false; APub 0 5 CtxBg false; APub 0 3 CtxBg false; APub 0 6 CtxBg false]]) (repeat 0 90) in
  store_log s = [(0, 5); (0, 6)] /\ last_offset s = 2 /\
  filter (fun l => match l with LPersistErr _ | LEnter _ _ _ => true | _ => false end) ls =
    [LPersistErr 0; LEnter 0 0 CtxBg; LPersistErr 1; LEnter 1 0 CtxBg; LEnter 2 0 CtxBg; LPersistErr 3; LEnter 3 0 CtxBg; LEnter 4 0 CtxBg].
Proof. vm_compute. auto. Qed.

(* over EVERY schedule of every program and every pattern of persistence failures: what is in the log stays in the
   log, in place - the log at any later point is the earlier log with records added at its end *)
Theorem C13_log_only_grows : forall P cfg sched s, exists ext, store_log (fst (run P cfg s sched)) = store_log s ++ ext.
Proof. exact log_only_grows. Qed.
Print Assumptions C13_log_only_grows.
