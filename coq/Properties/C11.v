(* C11 — Replay delivers every event after the offset, or says that it did not. *)
From Coq Require Import List NArith ZArith Bool.
Import ListNotations.
From Ebu Require Import Store.Lex Store.StoreModel Store.StoreProofs Store.ReplayModel Store.ReplayProofs.

(* Streaming path over MemoryStore.ReadStream: for every log, start, callback-failure or cancellation
   point, the callback sees a gap-free prefix in order, and nil is returned only if it saw everything. *)
Theorem C11_stream_memory : forall evs idx f c,
  let '(d, res) := stream_mem evs idx f c in
  is_prefix_of d evs /\ (res = RNil -> d = evs) /\ res <> ROutOfFuel.
Proof. exact stream_mem_prefix. Qed.
Print Assumptions C11_stream_memory.

(* SQLite cursor streaming (streamRows), incl. a row-fetch error at any row *)
Theorem C11_stream_sqlite_rows : forall evs idx f c,
  let '(d, res) := stream_rows evs idx f c in
  is_prefix_of d evs /\ (res = RNil -> d = evs) /\ res <> ROutOfFuel.
Proof. exact stream_rows_prefix. Qed.
Print Assumptions C11_stream_sqlite_rows.

(* SQLite batched streaming for every batch size >= 1; the batch loop terminates *)
Theorem C11_stream_sqlite_batched : forall fuel rows b idx f c, 0 < b ->
  let '(d, res) := stream_batched fuel rows b idx f c in
  is_prefix_of d rows /\ (res = RNil -> d = rows) /\ (length rows < fuel -> res <> ROutOfFuel).
Proof. exact stream_batched_prefix. Qed.
Print Assumptions C11_stream_sqlite_batched.

(* The paged fallback over ANY store meeting the read specification of C10, for every batch size >= 1,
   log, start offset, fault: gap-free prefix; nil only if complete; the loop needs at most
   (remaining + 2) iterations. *)
Theorem C11_paged_complete_or_error :
  forall (log : list sev) (off_at : nat -> offset) (read : offset -> Z -> option (list sev * offset)),
  (forall k limit, k <= length log ->
     read (off_at k) limit = Some (take limit (skipn k log), off_at (k + length (take limit (skipn k log))))) ->
  forall fuel k batch idx nreads f c, (0 < batch)%Z -> k <= length log ->
  let '(d, res) := replay_paged read fuel (off_at k) batch idx nreads f c in
  is_prefix_of d (skipn k log) /\ (res = RNil -> d = skipn k log) /\
  (length log - k + 1 < fuel -> res <> ROutOfFuel).
Proof. exact replay_paged_complete_or_error. Qed.
Print Assumptions C11_paged_complete_or_error.

(* a callback failure that is reached is reported *)
Theorem C11_callback_failure_reported : forall evs idx j, idx <= j < idx + length evs ->
  snd (stream_mem evs idx (FCallback j) false) = RErr.
Proof. exact stream_mem_callback_error. Qed.
Print Assumptions C11_callback_failure_reported.

(* Replay is a function of the store's read interface and the callback only: it has no access to
   Append or to the handler registry (C11_pure is this typing fact; the harness observes it). *)

Example C11_nonvacuous :
  let rows := map (fun p => {| e_off := fmt_pos (Z.of_nat (S p)); e_pay := p |}) (seq 0 12) in
  map e_pay (fst (stream_batched 15 rows 5 0 (FCancel 1) false)) = [0; 1] /\
  snd (stream_batched 15 rows 5 0 (FCancel 1) false) = RErr /\
  snd (stream_batched 15 rows 5 0 FNone false) = RNil.
Proof. vm_compute. auto. Qed.
