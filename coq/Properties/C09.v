(* C09 — Every publish on a persistent bus is recorded once, before it is delivered. *)
From Coq Require Import List Arith Bool.
Import ListNotations.
From Ebu Require Import Bus.BusModel Bus.BusInv.

(* For EVERY option list that contains WithStore - any order, any other hooks, also hooks given after the
   store - the bus has a store and its context-aware before-publish slot contains the persistence step. *)
Theorem C09_options_persist : forall opts,
  In OStore opts -> c_store (cfg_of opts) = true /\ 1 <= count_persist (c_before_ctx (cfg_of opts)).
Proof. exact options_persist. Qed.
Print Assumptions C09_options_persist.

(* With exactly one WithStore there is exactly one persistence step: one record per publish. *)
Theorem C09_options_persist_once : forall opts,
  count_store opts = 1 -> count_persist (c_before_ctx (cfg_of opts)) = 1 /\ c_store (cfg_of opts) = true.
Proof. exact options_persist_once. Qed.
Print Assumptions C09_options_persist_once.

(* The before-publish slot (hence the append) is executed before the snapshot of that publish: no handler of
   the publish - they are all queued by ISnapshot - can run before the record is in the store. *)
Theorem C09_persist_before_dispatch : forall P cfg s a t v c any rest s' ls,
  step_instr P cfg s a (IDo (APub t v c any)) rest = Some (s', ls) ->
  exists pre post, assoc_get (code s') a = Some (pre ++ ISnapshot (next_pid s) :: post) /\ post = rest /\
    (c_before_ctx cfg <> [] -> In (IBeforeCtx (next_pid s) (c_before_ctx cfg)) pre) /\
    (forall i, In i pre -> match i with ISnapshot _ | IEntry _ _ | IEnter _ _ => False | _ => True end).
Proof. exact publish_persists_before_snapshot. Qed.
Print Assumptions C09_persist_before_dispatch.

Example C09_nonvacuous :
  c_before_ctx (cfg_of [OStore; OBeforeCtx 3]) = [BUser 3; BPersist] /\
  c_before_ctx (cfg_of [OBeforeCtx 3; OStore]) = [BUser 3; BPersist] /\
  c_before_ctx (cfg_of [OAfterCtx 1; OStore; OBeforeCtx 2; OBeforeCtx 3; OObs]) = [BUser 3; BPersist].
Proof. vm_compute. auto. Qed.

(* a hook option given a nil function ("no hook") is an option like the others: it removes the user's hook and keeps
   the persistence step *)
Example C09_nil_hooks :
  c_before_ctx (cfg_of [OStore; ONilBeforeCtx]) = [BPersist] /\
  c_before_ctx (cfg_of [OBeforeCtx 3; OStore; ONilBeforeCtx]) = [BPersist] /\
  c_before_ctx (cfg_of [ONilBeforeCtx; OBeforeCtx 3; OStore]) = [BUser 3; BPersist] /\
  c_before_legacy (cfg_of [OBeforeLegacy 2; OStore; ONilBeforeLegacy]) = None.
Proof. vm_compute. auto. Qed.
