(* C15 — One type name per event type, everywhere. *)
From Coq Require Import List Bool.
Import ListNotations.
From Ebu Require Import Names.TypeNames Names.NamesProofs.

(* For every shape of event type (value or pointer; no custom name / custom name on a value receiver / on a pointer
   receiver) and every pair of name-deriving APIs (publish+persist, EventType, SubscribeWithReplay[T], RegisterUpcast
   source and target, Replay with an EventType comparison) the derived names are equal.  The domain is finite: the
   proof is the exhaustive case analysis. *)
Theorem C15_names_agree : forall (s : shape) (p q : path), name_on p s = name_on q s.
Proof. exact names_agree. Qed.
Print Assumptions C15_names_agree.

Theorem C15_names_agree_exhaustive :
  forallb (fun s => forallb (fun p => forallb (fun q => tname_eqb (name_on p s) (name_on q s)) all_paths) all_paths) all_shapes = true.
Proof. exact names_agree_b. Qed.
Print Assumptions C15_names_agree_exhaustive.

Theorem C15_shapes_complete : forall s, In s all_shapes.
Proof. exact all_shapes_complete. Qed.
Print Assumptions C15_shapes_complete.

(* consequences: a published and persisted event is matched by its typed replay subscription and by its typed upcasters *)
Corollary C15_replay_matches : forall s, name_on PSubscribeReplay s = name_on PPersist s.
Proof. intros s. exact (names_agree s PSubscribeReplay PPersist). Qed.
Corollary C15_upcast_matches : forall s, name_on PUpcastSource s = name_on PPersist s.
Proof. intros s. exact (names_agree s PUpcastSource PPersist). Qed.

Example C15_nonvacuous : name_on PPersist (ByPointer, ValueReceiver) = Custom /\ name_on PPersist (ByValue, PointerReceiver) = Reflect ByValue.
Proof. split; reflexivity. Qed.
