(* C14 — What the SQLite store acknowledged survives reopening and a killed process.
   Model: Crash/SqliteCrash.v.  A history is any list of process lifetimes on one database file; each lifetime opens the
   store (idempotent transactional migration), performs any appends and offset saves, and ends by a clean close or by
   being killed at any point: before or during the open, between operations, or during one - in which case that one
   statement is either lost or committed without an acknowledgement.
   ASSUMED, not proved (SQLite's guarantee under WAL + synchronous=NORMAL against the death of the process): a committed
   statement is durable and a statement in flight is atomic.  ebu's part is what the model contains. *)
From Coq Require Import List Arith.
Import ListNotations.
From Ebu Require Import Crash.SqliteCrash Crash.CrashProofs.

(* after any history the log holds exactly the committed appends, in order ... *)
Theorem C14_contents_are_the_committed_appends : forall ls, vals (run empty ls) = flat_map committed_vals ls.
Proof. exact contents_are_the_committed_appends. Qed.
Print Assumptions C14_contents_are_the_committed_appends.

(* ... so every acknowledged append is there, in acknowledgement order ... *)
Theorem C14_acknowledged_appends_survive : forall ls, subseq (flat_map acked_vals ls) (vals (run empty ls)).
Proof. exact acknowledged_appends_survive. Qed.
Print Assumptions C14_acknowledged_appends_survive.

(* ... plus at most one unacknowledged event per process lifetime (the one in flight when it was killed) *)
Theorem C14_at_most_one_in_flight_per_life : forall ls,
  forallb life_ok ls = true -> length (vals (run empty ls)) <= length (flat_map acked_vals ls) + length ls.
Proof. exact at_most_one_unacknowledged_per_life. Qed.
Print Assumptions C14_at_most_one_in_flight_per_life.

(* gap-free positions 1, 2, 3, ...; the next append gets a position above every one ever handed out *)
Theorem C14_positions_consecutive : forall ls,
  let d := run empty ls in map fst (rows d) = seq 1 (length (rows d)) /\ seqno d = length (rows d).
Proof. exact positions_consecutive. Qed.
Print Assumptions C14_positions_consecutive.

Theorem C14_new_appends_get_larger_offsets : forall ls v,
  let d := run empty ls in
  forall p, In p (map fst (rows d)) -> p < fst (last (rows (commit d (SAppend v))) (0, 0)).
Proof. exact new_append_above_all. Qed.
Print Assumptions C14_new_appends_get_larger_offsets.

(* a subscription's stored offset is the last SaveOffset that committed *)
Theorem C14_saved_offsets_survive : forall ls id,
  get_off (offs (run empty ls)) id = last (flat_map (fun l => committed_saves l id) ls) 0.
Proof. exact saved_offset_is_last_committed. Qed.
Print Assumptions C14_saved_offsets_survive.

(* opening an existing database is idempotent *)
Theorem C14_open_idempotent : forall d, open (open d) = open d.
Proof. exact open_idempotent. Qed.
Print Assumptions C14_open_idempotent.

Theorem C14_reopen_changes_nothing : forall d b,
  let d' := run_life d {| l_open_committed := b; l_ops := [] |} in
  rows d' = rows d /\ seqno d' = seqno d /\ offs d' = offs d.
Proof. exact reopen_changes_nothing. Qed.
Print Assumptions C14_reopen_changes_nothing.

Example C14_nonvacuous :
  let ls := [ {| l_open_committed := true; l_ops := [(SAppend 1, Acked); (SAppend 2, Acked); (SSave 0 2, Acked); (SAppend 3, CommittedUnacked)] |};
              {| l_open_committed := true; l_ops := [(SAppend 4, Acked); (SAppend 5, LostInFlight)] |};
              {| l_open_committed := false; l_ops := [] |};
              {| l_open_committed := true; l_ops := [(SAppend 6, Acked)] |} ] in
  forallb life_ok ls = true /\ rows (run empty ls) = [(1, 1); (2, 2); (3, 3); (4, 4); (5, 6)] /\
  flat_map acked_vals ls = [1; 2; 4; 6] /\ get_off (offs (run empty ls)) 0 = 2.
Proof. exact nonvacuous. Qed.
