(* C04 — A Once handler fires at most once, and exactly once when eligible. *)
From Coq Require Import List Arith Bool.
Import ListNotations.
From Ebu Require Import Bus.BusModel Bus.BusInv.

(* However many goroutines publish, under EVERY schedule of every program: the number of entries into a
   Once registration over the whole run is at most one, and an entry implies that its flag was claimed. *)
Theorem C04_at_most_once : forall P cfg s, reachable P cfg s ->
  forall rid, cnt_entered rid s <= 1 /\ (cnt_entered rid s = 1 -> memb rid (executed s) = true).
Proof. exact once_at_most_once. Qed.
Print Assumptions C04_at_most_once.

(* The inductive step of that invariant: entries made + deliveries in flight never exceed the claimed flag. *)
Theorem C04_invariant_step : forall P cfg s a s' ls, winv s -> once_inv s -> mstep P cfg s a = Some (s', ls) -> once_inv s'.
Proof. exact once_inv_step. Qed.
Print Assumptions C04_invariant_step.

(* What uses a Once handler up: only the claim step, which is reached after the filter accepted the event and
   only with a context that is not cancelled; a filter rejection or an already-cancelled publish leaves it
   unclaimed and registered (C04_not_consumed). *)
Theorem C04_claim_decision : forall P cfg s a p h rest,
  (forall s' ls, step_instr P cfg s a (IFilterDone p h) rest = Some (s', ls) ->
     assoc_get (code s') a = Some (if filter_accepts P h (get_pub s p) then IClaim p h :: rest else rest)) /\
  (forall s' ls, step_instr P cfg s a (IClaim p h) rest = Some (s', ls) ->
     assoc_get (code s') a =
       Some (if h_once (r_spec h)
             then (if is_cancelled s (pb_ctx (get_pub s p)) then rest
                   else if memb (r_id h) (executed s) then rest else IDispatch p h :: rest)
             else IDispatch p h :: rest)) /\
  (forall s' ls, h_async (r_spec h) = false -> step_instr P cfg s a (IDispatch p h) rest = Some (s', ls) ->
     assoc_get (code s') a = Some (if is_cancelled s (pb_ctx (get_pub s p)) then rest
                                   else call_handler P p h false (c_obs cfg) ++ rest)).
Proof. exact entry_decisions. Qed.
Print Assumptions C04_claim_decision.

(* "Exactly once when eligible" is a liveness statement about completed runs; it is decided on observed runs by
   the oracle (Corr/BusOracle.v, complete_b; Corr/CorrOnce.v for the schedule the controller cannot force) and holds
   for the model on every replayed schedule.  As a statement over EVERY schedule it is REFUTED for the faithful model by
   a two-goroutine interleaving that needs a preemption between two adjacent statements of PublishContext (claim, then
   the per-handler cancellation check): the context is live when the event is published, the Once handler is claimed,
   the context is cancelled, the handler is skipped - and it never fires again.  Not reproducible on the real code by
   the harness (no callback between the two statements); recorded in DESIGN.md. *)
Theorem C04_sync_claim_then_cancel_refuted :
  let P := {| p_bodies := [(0, {| b_acts := [] |})]; p_filters := []; p_routes := fun _ => 0; p_nshards := 32; p_pfault := fun _ => PfOk |} in
  let sp := {| h_fn := 0; h_once := true; h_async := false; h_seq := false; h_ctx := false; h_filter := None; h_body := 0 |} in
  let th := [[ASub 0 sp; APub 0 1 (CtxId 1) false; ACount 0; APub 0 2 CtxBg false; ACount 0]; [ACancel 1]] in
  let '(s, ls) := run P cfg0 (init_state th) (repeat 0 7 ++ [1; 1; 1] ++ repeat 0 80) in
  cnt_entered 0 s = 0 /\
  filter (fun l => match l with LRes (ACount _) _ => true | _ => false end) ls = [LRes (ACount 0) 0; LRes (ACount 0) 0].
Proof. exact sync_claim_then_cancel. Qed.
Print Assumptions C04_sync_claim_then_cancel_refuted.

Example C04_nonvacuous :
  let P := {| p_bodies := [(0, {| b_acts := [] |})]; p_filters := [(0, {| f_acts := []; f_min := 5 |})];
              p_routes := fun _ => 0; p_nshards := 32; p_pfault := fun _ => PfOk |} in
  let sp := {| h_fn := 0; h_once := true; h_async := false; h_seq := false; h_ctx := false; h_filter := Some 0; h_body := 0 |} in
  let '(s, ls) := run P cfg0 (init_state [[ASub 0 sp; ACancel 1; APub 0 9 (CtxId 1) false; APub 0 1 CtxBg false; ACount 0;
                                           APub 0 7 CtxBg false; ACount 0; APub 0 8 CtxBg false]]) (repeat 0 80) in
  (* a cancelled publish and a filtered-out event do not use it up; the first eligible one does; then it is retired *)
  filter (fun l => match l with LEnter _ _ _ | LRes _ _ => true | _ => false end) ls =
    [LRes (ACount 0) 1; LEnter 2 0 CtxBg; LRes (ACount 0) 0] /\ cnt_entered 0 s = 1.
Proof. vm_compute. auto. Qed.
