(* C20 — Observability callbacks are balanced, nested and truthful (bus half; the OpenTelemetry adapter is
   checked against the SDK's recorders by the harness, see DESIGN). *)
From Coq Require Import List Arith Bool.
Import ListNotations.
From Ebu Require Import Bus.BusModel Bus.BusInv.

(* One publish pair: start is the first instruction of a publish, complete the last one queued by its snapshot. *)
Theorem C20_publish_pair_start : forall P cfg s a t v c any rest s' ls,
  step_instr P cfg s a (IDo (APub t v c any)) rest = Some (s', ls) ->
  assoc_get (code s') a =
    Some ((if c_obs cfg then [IPubStart (next_pid s)] else []) ++
          (match c_before_legacy cfg with Some _ => [IBeforeLegacy (next_pid s)] | None => [] end) ++
          (match c_before_ctx cfg with [] => [] | st => [IBeforeCtx (next_pid s) st] end) ++
          [ISnapshot (next_pid s)] ++ rest) /\
  get_pub s' (next_pid s) = {| pb_ty := t; pb_val := v; pb_ctx := c; pb_any := any; pb_claimed := [] |} /\ ls = [].
Proof. exact publish_shape. Qed.
Print Assumptions C20_publish_pair_start.

Theorem C20_publish_pair_complete : forall P cfg s a p rest s' ls,
  step_instr P cfg s a (ISnapshot p) rest = Some (s', ls) ->
  exists tail, assoc_get (code s') a = Some (map (IEntry p) (handlers_of s (pb_ty (get_pub s p))) ++ IRemoveOnce p :: tail) /\
               registry s' = registry s /\ ls = [] /\
               tail = (match c_after_legacy cfg with Some _ => [IAfterLegacy p] | None => [] end) ++
                      (match c_after_ctx cfg with Some _ => [IAfterCtx p] | None => [] end) ++
                      (if c_obs cfg then [IPubDone p] else []) ++ rest.
Proof. exact snapshot_exact. Qed.
Print Assumptions C20_publish_pair_complete.

(* One handler pair per invocation: the start callback opens every handler call, and whatever happens in the body -
   normal return or a panic anywhere inside - exactly one complete callback follows, carrying an error exactly when
   the handler panicked; skipped handlers (filtered, cancelled, lost once-claim) have neither. *)
Theorem C20_handler_pair : forall cfg p h async panicked,
  after_recover cfg p h async panicked =
    (if h_seq (r_spec h) then [IUnlock h] else []) ++
    (if panicked && c_panic_handler cfg then [IPanicHandler p h] else []) ++
    (if c_obs cfg then [IHandlerDone p h panicked] else []) ++
    (if async then [ITaskDone] else []).
Proof. exact after_recover_contents. Qed.
Print Assumptions C20_handler_pair.

Theorem C20_panic_reaches_complete : forall P cfg s a v pre p h async r s' ls,
  no_recover pre ->
  step_instr P cfg s a (IDo (APanic v)) (pre ++ IRecover p h async :: r) = Some (s', ls) ->
  assoc_get (code s') a = Some (after_recover cfg p h async true ++ r) /\ ls = [] /\
  registry s' = registry s /\ executed s' = executed s /\ inflight s' = inflight s /\ seqlocks s' = seqlocks s.
Proof. exact panic_recovered. Qed.
Print Assumptions C20_panic_reaches_complete.

(* One persist pair per append attempt, the complete carrying an error exactly when the append failed; an event
   that cannot be encoded makes no attempt and has no pair. *)
Theorem C20_persist_pair : forall P cfg s a p rest s' ls,
  step_instr P cfg s a (IPersistAppendDone p) rest = Some (s', ls) ->
  let r := get_pub s p in
  let failed := match p_pfault P (pb_val r) with PfOk => false | _ => true end in
  store_log s' = (if failed then store_log s else store_log s ++ [(pb_ty r, pb_val r)]) /\
  last_offset s' = (if failed then last_offset s else length (store_log s')) /\
  store_mu s' = None /\ ls = [] /\
  assoc_get (code s') a =
    Some ((if c_obs cfg then [IPersistObsDone p failed] else []) ++
          (if failed && c_persist_err_handler cfg then [IPersistErr p] else []) ++ rest).
Proof. exact persist_append_effect. Qed.
Print Assumptions C20_persist_pair.

Theorem C20_persist_start : forall P cfg s a p rest s' ls,
  c_store cfg = true ->
  step_instr P cfg s a (IPersistMarshal p) rest = Some (s', ls) ->
  ls = [] /\ store_log s' = store_log s /\ last_offset s' = last_offset s /\
  assoc_get (code s') a =
    Some (match p_pfault P (pb_val (get_pub s p)) with
          | PfUnencodable => (if c_persist_err_handler cfg then [IPersistErr p] else []) ++ rest
          | _ => (if c_obs cfg then [IPersistObsStart p] else []) ++ IPersistLock p :: rest
          end).
Proof. exact persist_marshal_decision. Qed.
Print Assumptions C20_persist_start.

Example C20_nonvacuous :
  let P := {| p_bodies := [(0, {| b_acts := [] |}); (1, {| b_acts := [APanic 1] |})]; p_filters := [];
              p_routes := fun _ => 0; p_nshards := 32; p_pfault := fun v => match v with 2 => PfReject | _ => PfOk end |} in
  let sp b := {| h_fn := b; h_once := false; h_async := false; h_seq := false; h_ctx := false; h_filter := None; h_body := b |} in
  let cfg := cfg_of [OObs; OStore] in
  let ls := snd (run P cfg (init_state [[ASub 0 (sp 1); ASub 0 (sp 0); APub 0 2 CtxBg false]]) (repeat 0 60)) in
  filter (fun l => match l with LAct _ | LRes _ _ => false | _ => true end) ls =
    [LPubStart 0; LPersistStart 0; LAppend 0; LPersistDone 0 true; LHandlerStart 0 false; LEnter 0 0 CtxBg;
     LHandlerDone 0 true; LHandlerStart 0 false; LEnter 0 1 CtxBg; LHandlerDone 0 false; LPubDone 0].
Proof. vm_compute. auto. Qed.

(* ---- the OpenTelemetry adapter (Otel/OtelModel.v): a consumer of the callback trace ---- *)
From Ebu Require Import Otel.OtelModel Otel.OtelProofs.

(* for every callback trace in which each span key is started once and completed exactly once, never before its
   start - which is what the theorems above say of the bus's callbacks - every span the adapter starts is ended
   exactly once *)
Theorem C20_otel_every_span_ended_once : forall t, paired t = true -> forall s, In s (spans (orun t)) -> s_ended s = 1.
Proof. exact every_span_ended_once. Qed.
Print Assumptions C20_otel_every_span_ended_once.

(* a span's parent is the span carried by the context its start callback received: handler and persist spans, whose
   start callbacks receive the publish context, are children of the publish span *)
Theorem C20_otel_parent_is_incoming_span : forall t1 key k parent t2,
  exists s, In s (spans (orun (t1 ++ Start key k parent :: t2))) /\ s_key s = key /\ s_kind s = k /\ s_parent s = parent.
Proof. exact parent_is_the_incoming_span. Qed.
Print Assumptions C20_otel_parent_is_incoming_span.

(* the counters equal the true numbers of publishes, handler runs, persist attempts ... *)
Theorem C20_otel_counters : forall t,
  let st := orun t in
  n_pub st = count (is_kind_start (fun k => match k with KPub => true | _ => false end)) t /\
  n_handler_sync st = count (is_kind_start (fun k => match k with KHandler false => true | _ => false end)) t /\
  n_handler_async st = count (is_kind_start (fun k => match k with KHandler true => true | _ => false end)) t /\
  n_persist st = count (is_kind_start (fun k => match k with KPersist => true | _ => false end)) t.
Proof. exact counters_are_the_true_numbers. Qed.
Print Assumptions C20_otel_counters.

(* ... and of handler panics and persist failures: one per complete callback that carries an error *)
Theorem C20_otel_error_counters : forall t,
  n_handler_err (orun t) = err_count true [] t /\ n_persist_err (orun t) = err_count false [] t.
Proof. exact error_counters_are_the_true_numbers. Qed.
Print Assumptions C20_otel_error_counters.
