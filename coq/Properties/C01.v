(* C01 — Publish reaches exactly the subscribed handlers, once each, in order.
   The registry of the model is flat (type -> registrations in subscription order); shards appear only as the
   steps of ClearAll, parameterised by an ARBITRARY routing function: nothing below depends on routing. *)
From Coq Require Import List Arith Bool.
Import ListNotations.
From Ebu Require Import Bus.BusModel Bus.BusInv.

(* The snapshot step queues exactly the registrations of the published type present at that step, in
   subscription order, each once - never a handler of another type - followed by the once-removal, the after
   hooks and the completion callback.  Re-entrant calls from handlers are ordinary later steps: they cannot
   change what was queued. *)
Theorem C01_snapshot_exact : forall P cfg s a p rest s' ls,
  step_instr P cfg s a (ISnapshot p) rest = Some (s', ls) ->
  exists tail, assoc_get (code s') a = Some (map (IEntry p) (handlers_of s (pb_ty (get_pub s p))) ++ IRemoveOnce p :: tail) /\
               registry s' = registry s /\ ls = [] /\
               tail = (match c_after_legacy cfg with Some _ => [IAfterLegacy p] | None => [] end) ++
                      (match c_after_ctx cfg with Some _ => [IAfterCtx p] | None => [] end) ++
                      (if c_obs cfg then [IPubDone p] else []) ++ rest.
Proof. exact snapshot_exact. Qed.
Print Assumptions C01_snapshot_exact.

(* Per queued registration: filter first, then the once-claim, then dispatch (sync: skipped if cancelled). *)
Theorem C01_entry_decisions : forall P cfg s a p h rest,
  (forall s' ls, step_instr P cfg s a (IFilterDone p h) rest = Some (s', ls) ->
     assoc_get (code s') a = Some (if filter_accepts P h (get_pub s p) then IClaim p h :: rest else rest)) /\
  (forall s' ls, step_instr P cfg s a (IClaim p h) rest = Some (s', ls) ->
     assoc_get (code s') a =
       Some (if h_once (r_spec h)
             then (if is_cancelled s (pb_ctx (get_pub s p)) then rest
                   else if memb (r_id h) (executed s) then rest else IDispatch p h :: rest)
             else IDispatch p h :: rest)) /\
  (forall s' ls, h_async (r_spec h) = false -> step_instr P cfg s a (IDispatch p h) rest = Some (s', ls) ->
     assoc_get (code s') a = Some (if is_cancelled s (pb_ctx (get_pub s p)) then rest
                                   else call_handler P p h false (c_obs cfg) ++ rest)).
Proof. exact entry_decisions. Qed.
Print Assumptions C01_entry_decisions.

(* Subscribe appends one registration to its type and touches no other type. *)
Theorem C01_subscribe : forall P cfg s a t sp rest s' ls,
  step_instr P cfg s a (IDo (ASub t sp)) rest = Some (s', ls) ->
  handlers_of s' t = handlers_of s t ++ [{| r_id := next_rid s; r_ty := t; r_spec := sp |}] /\
  (forall t', t' <> t -> handlers_of s' t' = handlers_of s t') /\ next_rid s' = S (next_rid s).
Proof. exact subscribe_exact. Qed.
Print Assumptions C01_subscribe.

(* Unsubscribe removes exactly one registration of the given handler - the first - or reports "not found" and
   changes nothing; other types are untouched. *)
Theorem C01_unsubscribe_one : forall P cfg s a t fn rest s' ls,
  step_instr P cfg s a (IDo (AUnsub t fn)) rest = Some (s', ls) ->
  (forall t', t' <> t -> handlers_of s' t' = handlers_of s t') /\
  match remove_first_fn (handlers_of s t) fn with
  | Some l' => handlers_of s' t = l' /\ ls = [LRes (AUnsub t fn) 1]
  | None => handlers_of s' t = handlers_of s t /\ ls = [LRes (AUnsub t fn) 0]
  end.
Proof. exact unsubscribe_exact. Qed.
Print Assumptions C01_unsubscribe_one.

Theorem C01_remove_first_spec : forall l fn,
  match remove_first_fn l fn with
  | Some l' => exists pre h post, l = pre ++ h :: post /\ l' = pre ++ post /\ h_fn (r_spec h) = fn /\
                                  forall x, In x pre -> h_fn (r_spec x) <> fn
  | None => forall x, In x l -> h_fn (r_spec x) <> fn
  end.
Proof. exact remove_first_fn_spec. Qed.
Print Assumptions C01_remove_first_spec.

Theorem C01_clear : forall P cfg s a t rest s' ls,
  step_instr P cfg s a (IDo (AClear t)) rest = Some (s', ls) ->
  handlers_of s' t = [] /\ forall t', t' <> t -> handlers_of s' t' = handlers_of s t'.
Proof. exact clear_exact. Qed.
Print Assumptions C01_clear.

(* ClearAll, shard by shard, for any routing function: a shard step empties exactly the types routed to it *)
Theorem C01_clear_shard : forall P cfg s a k rest s' ls,
  step_instr P cfg s a (IClearShard k) rest = Some (s', ls) ->
  forall t, handlers_of s' t = if Nat.eqb (p_routes P t) k then [] else handlers_of s t.
Proof. exact clear_shard_exact. Qed.
Print Assumptions C01_clear_shard.

Theorem C01_count_agrees : forall P cfg s a t rest s' ls,
  step_instr P cfg s a (IDo (ACount t)) rest = Some (s', ls) ->
  ls = [LRes (ACount t) (length (handlers_of s t))] /\ registry s' = registry s.
Proof. exact count_agrees. Qed.
Print Assumptions C01_count_agrees.

Theorem C01_has_agrees : forall P cfg s a t rest s' ls,
  step_instr P cfg s a (IDo (AHas t)) rest = Some (s', ls) ->
  ls = [LRes (AHas t) (if Nat.ltb 0 (length (handlers_of s t)) then 1 else 0)] /\ registry s' = registry s.
Proof. exact has_agrees. Qed.
Print Assumptions C01_has_agrees.

Example C01_nonvacuous :
  let P := {| p_bodies := [(0, {| b_acts := [] |}); (1, {| b_acts := [AUnsub 0 2; ASub 0 {| h_fn := 4; h_once := false; h_async := false; h_seq := false; h_ctx := false; h_filter := None; h_body := 0 |}] |})];
              p_filters := []; p_routes := fun _ => 0; p_nshards := 32; p_pfault := fun _ => PfOk |} in
  let sp b fn := {| h_fn := fn; h_once := false; h_async := false; h_seq := false; h_ctx := false; h_filter := None; h_body := b |} in
  let '(s, ls) := run P cfg0 (init_state [[ASub 0 (sp 1 0); ASub 0 (sp 0 2); APub 0 7 CtxBg false; ACount 0]]) (repeat 0 40) in
  (* the handler that unsubscribes the second one while the event is being delivered does not stop its delivery *)
  filter (fun l => match l with LEnter _ _ _ => true | _ => false end) ls = [LEnter 0 0 CtxBg; LEnter 0 1 CtxBg] /\
  map r_id (handlers_of s 0) = [0; 2].
Proof. vm_compute. auto. Qed.
