(* C18 — Materialized state is the fold of the message log. *)
From Coq Require Import List String Arith Bool.
Import ListNotations.
From Ebu Require Import State.StateModel State.StateProofs.

(* One Apply call refines one step of the last-writer-wins specification, for every decode
   outcome, in strict and non-strict mode: insert/update set, delete removes, reset empties every
   collection, snapshot markers / unknown operations / unregistered types change nothing. *)
Theorem C18_step_refines : forall strict s off d,
  smap_eq_on (registered s) (abs (fst (apply_doc strict s off d))) (spec_step (registered s) (abs s) d).
Proof. exact apply_refines. Qed.
Print Assumptions C18_step_refines.

(* After any sequence of messages every registered collection holds exactly the fold. *)
Theorem C18_fold : forall strict evs s,
  smap_eq_on (registered s) (abs (fst (run_all strict s evs)))
             (fold_left (spec_step (registered s)) (map snd evs) (abs s)).
Proof. exact run_all_fold. Qed.
Print Assumptions C18_fold.

(* ... and holds no key belonging to another entity type; keys containing "/" cannot collide. *)
Theorem C18_keys_wf : forall strict s off d, keys_wf s -> keys_wf (fst (apply_doc strict s off d)).
Proof. exact keys_wf_apply. Qed.
Print Assumptions C18_keys_wf.

Theorem C18_key_injective : forall ty k1 k2, composite ty k1 = composite ty k2 -> k1 = k2.
Proof. exact composite_inj. Qed.
Print Assumptions C18_key_injective.

(* LastOffset is the position of the last successfully applied event. *)
Theorem C18_last_offset : forall strict evs s,
  last (fst (run_all strict s evs)) = last_ok (last s) evs (snd (run_all strict s evs)).
Proof. exact run_all_last. Qed.
Print Assumptions C18_last_offset.

(* Two replay sessions, the second resumed from LastOffset, give the state of one session,
   for every split point, strict or not, also when some event is rejected. *)
Theorem C18_resume : forall strict log1 log2 s,
  last s = 0 -> sorted_from 0 (log1 ++ log2) ->
  let s1 := fst (session strict s log1) in
  fst (session strict s1 (log1 ++ log2)) = fst (session strict s (log1 ++ log2)).
Proof. exact session_resume. Qed.
Print Assumptions C18_resume.

Example C18_nonvacuous :
  let s0 := init_state ["a"; "a/b"]%string in
  let log := [(1, DChange "a" "b/c" OpInsert (Some 1)); (2, DChange "a/b" "c" OpInsert (Some 2));
              (3, DChange "a" "b/c" OpDelete None); (4, DControl CtlSnapStart);
              (5, DChange "a/b" "c" OpUpdate (Some 7))]%string in
  let s := fst (session false s0 log) in
  abs s "a/b"%string "c"%string = Some 7 /\ abs s "a"%string "b/c"%string = None /\ last s = 5 /\
  sorted_from 0 log.
Proof. vm_compute. auto 10. Qed.
