(* C17 — Upcasting applies the whole chain or nothing. *)
From Coq Require Import List Arith Bool.
Import ListNotations.
From Ebu Require Import Upcast.UpcastModel Upcast.UpcastProofs.

(* On an acyclic registry whose functions return their declared target, apply is exactly the
   repeated application of the first-registered upcaster of the current type ([chain], a
   deterministic relation), ending in the composed data and final type or in the failure of one step. *)
Theorem C17_chain : forall (data : Type) (beh : fnid -> data -> option (data * name)) g d t,
  acyclic g -> honours data beh g -> chain data beh g d t (apply beh g d t).
Proof. exact apply_chain. Qed.
Print Assumptions C17_chain.

Theorem C17_chain_deterministic : forall (data : Type) beh g d t r1 r2,
  chain data beh g d t r1 -> chain data beh g d t r2 -> r1 = r2.
Proof. exact chain_det. Qed.
Print Assumptions C17_chain_deterministic.

Theorem C17_untouched : forall (data : Type) (beh : fnid -> data -> option (data * name)) g d t,
  ups g t = [] -> apply beh g d t = ApOk d t.
Proof. exact apply_untouched. Qed.
Print Assumptions C17_untouched.

(* The callback sees the fully upcast event or the original one — never a partly upcast one —
   with offset and timestamp unchanged; the error handler is called once, for a failed step only. *)
Theorem C17_all_or_nothing : forall (data : Type) (beh : fnid -> data -> option (data * name)) g (e : stored data),
  let '(e', calls) := upcast_event beh g e in
  s_off e' = s_off e /\ s_ts e' = s_ts e /\
  match apply beh g (s_data e) (s_ty e) with
  | ApOk d t => s_data e' = d /\ s_ty e' = t /\ calls = []
  | ApFail t d => e' = e /\ calls = [(t, d)]
  | _ => e' = e /\ calls = []
  end.
Proof. exact upcast_event_all_or_nothing. Qed.
Print Assumptions C17_all_or_nothing.

(* A typed upcaster produces the encoding of f applied to the decoded source value and honours its target. *)
Theorem C17_typed : forall (data A B : Type) (decode : data -> option A) (encode : B -> option data)
  (f : A -> B) (to : name) d a d',
  decode d = Some a -> encode (f a) = Some d' -> typed_upcast data A B decode encode f to d = Some (d', to).
Proof. exact typed_upcast_spec. Qed.
Print Assumptions C17_typed.

Example C17_nonvacuous :
  let g := fold_left do_uop [OReg 1 2 7; OReg 1 3 6; OReg 2 4 8] [] in
  let beh := fun (f : fnid) (d : list nat) => if Nat.eqb f 8 then None else Some (d ++ [f], if Nat.eqb f 7 then 2 else 3) in
  apply beh g [0] 1 = ApFail 2 [0; 7] /\
  apply (fun f d => Some (d ++ [f], if Nat.eqb f 7 then 2 else if Nat.eqb f 8 then 4 else 3)) g [0] 1 = ApOk [0; 7; 8] 4.
Proof. vm_compute. auto. Qed.
