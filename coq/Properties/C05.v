(* C05 — A panicking handler never harms the publisher or the other handlers. *)
From Coq Require Import List Arith Bool.
Import ListNotations.
From Ebu Require Import Bus.BusModel Bus.BusInv.

(* A panic raised anywhere inside a handler invocation (at any nesting depth of calls made by its body) unwinds
   exactly to that invocation's deferred recover: everything queued after it - the remaining handlers of the
   publish, the once-removal, the after hooks, the publisher's own continuation - is kept, and registry,
   once-flags, wait counter and handler locks are untouched by the unwinding step itself. *)
Theorem C05_panic_recovered : forall P cfg s a v pre p h async r s' ls,
  no_recover pre ->
  step_instr P cfg s a (IDo (APanic v)) (pre ++ IRecover p h async :: r) = Some (s', ls) ->
  assoc_get (code s') a = Some (after_recover cfg p h async true ++ r) /\ ls = [] /\
  registry s' = registry s /\ executed s' = executed s /\ inflight s' = inflight s /\ seqlocks s' = seqlocks s.
Proof. exact panic_recovered. Qed.
Print Assumptions C05_panic_recovered.

(* After the recover: the Sequential lock is released, the panic handler (if set) is called exactly once with
   the event and the handler, the completion callback carries the error, an async delivery runs wg.Done. *)
Theorem C05_after_recover : forall cfg p h async panicked,
  after_recover cfg p h async panicked =
    (if h_seq (r_spec h) then [IUnlock h] else []) ++
    (if panicked && c_panic_handler cfg then [IPanicHandler p h] else []) ++
    (if c_obs cfg then [IHandlerDone p h panicked] else []) ++
    (if async then [ITaskDone] else []).
Proof. exact after_recover_contents. Qed.
Print Assumptions C05_after_recover.

Theorem C05_unwind_spec : forall l p h async r,
  unwind l = Some (p, h, async, r) <-> exists pre, l = pre ++ IRecover p h async :: r /\ no_recover pre.
Proof. exact unwind_spec. Qed.
Print Assumptions C05_unwind_spec.

(* Wait still returns after panics: the wait counter stays exact whatever panics (C06's invariant holds on every
   schedule, panicking programs included), and a panicking async delivery still reaches its wg.Done. *)
Theorem C05_wait_counter_exact : forall P cfg s, reachable P cfg s -> inflight s = total (code s) /\ winv s.
Proof. exact inflight_counts. Qed.
Print Assumptions C05_wait_counter_exact.

Example C05_nonvacuous :
  let P := {| p_bodies := [(0, {| b_acts := [] |}); (1, {| b_acts := [APanic 3] |})]; p_filters := [];
              p_routes := fun _ => 0; p_nshards := 32; p_pfault := fun _ => PfOk |} in
  let sp b sq := {| h_fn := b; h_once := false; h_async := false; h_seq := sq; h_ctx := false; h_filter := None; h_body := b |} in
  let cfg := cfg_of [OPanicHandler] in
  let '(s, ls) := run P cfg (init_state [[ASub 0 (sp 1 true); ASub 0 (sp 0 false); APub 0 1 CtxBg false; APub 0 2 CtxBg false]]) (repeat 0 60) in
  filter (fun l => match l with LEnter _ _ _ | LPanicHandler _ _ => true | _ => false end) ls =
    [LEnter 0 0 CtxBg; LPanicHandler 0 0; LEnter 0 1 CtxBg; LEnter 1 0 CtxBg; LPanicHandler 1 0; LEnter 1 1 CtxBg] /\
  seqlocks s = [].
Proof. vm_compute. auto. Qed.

(* The panic handler is user code too: it is called once (one label), with nothing locked by the bus - the Sequential
   mutex was released by the instruction before it (C05_after_recover) - and then runs its own body, which may call back
   into the bus, e.g. publish the failed event again ("retry"). *)
Theorem C05_panic_handler_step : forall P cfg s a p h rest s' ls,
  step_instr P cfg s a (IPanicHandler p h) rest = Some (s', ls) ->
  assoc_get (code s') a = Some (acts (panic_acts P (pb_val (get_pub s p))) ++ rest) /\ ls = [LPanicHandler p (r_id h)] /\
  seqlocks s' = seqlocks s /\ registry s' = registry s /\ inflight s' = inflight s.
Proof. exact panic_handler_step. Qed.
Print Assumptions C05_panic_handler_step.

(* the retry: a synchronous Sequential handler panics on every event; the panic handler publishes the failed event again
   (once: only for values below the threshold); the handler is entered again from inside the panic handler - its mutex is
   free - panics again, is reported again, and the publisher comes back with nothing locked *)
Example C05_retry_from_the_panic_handler :
  let P := {| p_bodies := [(0, {| b_acts := [] |}); (1, {| b_acts := [APanic 7] |}); (panic_body, {| b_acts := [APub 0 51 CtxBg false] |})];
              p_filters := []; p_routes := fun _ => 0; p_nshards := 32; p_pfault := fun _ => PfOk |} in
  let sp := {| h_fn := 0; h_once := false; h_async := false; h_seq := true; h_ctx := false; h_filter := None; h_body := 1 |} in
  let '(s, ls) := run P (cfg_of [OPanicHandler]) (init_state [[ASub 0 sp; APub 0 1 CtxBg false]]) (repeat 0 80) in
  filter (fun l => match l with LEnter _ _ _ | LPanicHandler _ _ => true | _ => false end) ls =
    [LEnter 0 0 CtxBg; LPanicHandler 0 0; LEnter 1 0 CtxBg; LPanicHandler 1 0] /\
  seqlocks s = [] /\ assoc_get (code s) 0 = Some [].
Proof. vm_compute. auto. Qed.

(* Over EVERY schedule of every program in which the only user code that panics is handler bodies (not the threads' own
   top level, not hooks, not filters, not the panic handler itself): no goroutine ever reaches the crashed state - "the panic does not reach the
   publisher or crash the process".  Every panicking action in anybody's code is followed by the recover frame of the
   handler invocation it belongs to, at every moment of every run. *)
Theorem C05_handler_panics_never_crash : forall P cfg threads sched,
  Ppanic P cfg -> (forall l, In l threads -> nopanicb l = true) ->
  forall a c, assoc_get (code (fst (run P cfg (init_state threads) sched))) a = Some c -> ~ In ICrashed c.
Proof. exact handler_panics_never_crash. Qed.
Print Assumptions C05_handler_panics_never_crash.

(* "a panicking Sequential handler can run again": over every schedule, whoever is recorded as the holder of a Sequential
   handler's mutex still carries the matching deferred unlock - a panic never leaves the mutex locked for ever *)
Theorem C05_sequential_lock_not_orphaned : forall P cfg s, reachable P cfg s ->
  forall rid a, assoc_get (seqlocks s) rid = Some a -> exists c, assoc_get (code s) a = Some c /\ 0 < held rid c.
Proof. exact no_orphaned_handler_lock. Qed.
Print Assumptions C05_sequential_lock_not_orphaned.
