(* C10 — Every bundled store behaves as one append-only, resumable log.
   Position k of a store = "after the k-th appended event"; 0 = OffsetOldest. *)
From Coq Require Import List NArith ZArith Bool.
Import ListNotations.
From Ebu Require Import Store.Lex Store.StoreModel Store.StoreProofs Corr.CorrStore.

(* --- MemoryStore --- *)
(* Append returns the zero-padded counter, lexicographically above every earlier offset
   (counter below 10^20; int64 cannot exceed it). *)
Theorem C10_mem_offsets_increase_lex : forall s p,
  mem_wf s -> (m_next s + 1 < W)%N ->
  snd (mem_append s p) = pad 20 (m_next s + 1) /\
  forall e, In e (m_events s) -> lexlt (e_off e) (snd (mem_append s p)) = true.
Proof. exact mem_offsets_increase. Qed.
Print Assumptions C10_mem_offsets_increase_lex.

Theorem C10_mem_wf_preserved : forall s p, mem_wf s -> mem_wf (fst (mem_append s p)).
Proof. exact mem_wf_append. Qed.
Print Assumptions C10_mem_wf_preserved.

(* Read(o, n) from any issued offset (or oldest) returns the first n (all if n <= 0) events after it *)
Theorem C10_mem_read_spec : forall s k limit,
  mem_wf s -> (m_next s < W)%N -> k <= length (m_events s) ->
  mem_read s (mem_off k) limit =
  (take limit (skipn k (m_events s)), last_off (mem_off k) (take limit (skipn k (m_events s)))).
Proof. exact mem_read_spec. Qed.
Print Assumptions C10_mem_read_spec.

(* ... and the next offset it returns denotes the position after the returned events *)
Theorem C10_mem_next_offset : forall s k l, mem_wf s -> k + length l <= length (m_events s) ->
  l = firstn (length l) (skipn k (m_events s)) -> last_off (mem_off k) l = mem_off (k + length l).
Proof. exact mem_last_off. Qed.
Print Assumptions C10_mem_next_offset.

Theorem C10_mem_stream_eq_read : forall s k,
  mem_wf s -> (m_next s < W)%N -> k <= length (m_events s) ->
  mem_stream s (mem_off k) = fst (mem_read s (mem_off k) 0%Z).
Proof. exact mem_stream_eq_read. Qed.
Print Assumptions C10_mem_stream_eq_read.

(* --- any store meeting the read specification: chains of reads with arbitrary limits reproduce the
   log with no gap and no repeat, and a read that returns nothing means the end was reached --- *)
Theorem C10_chain : forall (log : list sev) (off_at : nat -> offset) (read : offset -> Z -> list sev * offset),
  (forall k limit, k <= length log ->
     read (off_at k) limit = (take limit (skipn k log), off_at (k + length (take limit (skipn k log))))) ->
  forall limits k, k <= length log ->
  let '(evs, k') := chain off_at read k limits in
  evs = firstn (k' - k) (skipn k log) /\ k <= k' <= length log.
Proof. exact chain_segment. Qed.
Print Assumptions C10_chain.

Theorem C10_chain_complete : forall (log : list sev) (off_at : nat -> offset) (read : offset -> Z -> list sev * offset),
  (forall k limit, k <= length log ->
     read (off_at k) limit = (take limit (skipn k log), off_at (k + length (take limit (skipn k log))))) ->
  forall k limit, k <= length log -> fst (read (off_at k) limit) = [] -> skipn k log = [].
Proof. exact empty_read_is_end. Qed.
Print Assumptions C10_chain_complete.

(* --- SQLiteStore --- *)
(* numeric order: positions strictly increase, are never reused, and the offset parses back *)
Theorem C10_sqlite_offsets_increase_numeric : forall s p,
  sq_wf s -> (q_seq s + 1 <= 9223372036854775807)%Z ->
  parse_int (snd (sq_append s p)) = Some (q_seq s + 1)%Z /\
  forall r, In r (q_rows s) -> (fst r < q_seq s + 1)%Z.
Proof. exact sq_offsets_increase_numeric. Qed.
Print Assumptions C10_sqlite_offsets_increase_numeric.

(* the full statement (lexicographic order) is FALSE for SQLite's unpadded decimal offsets: known finding *)
Theorem C10_sqlite_offsets_increase_lex_refuted :
  exists pays p, let s := fold_left (fun s x => fst (sq_append s x)) pays sq_init in
  exists r, In r (q_rows s) /\ lexlt (fmt_pos (fst r)) (snd (sq_append s p)) = false.
Proof.
  exists [0;0;0;0;0;0;0;0;0], 0. cbv zeta. exists (9%Z, 0). split; [vm_compute; tauto|vm_compute; reflexivity].
Qed.
Print Assumptions C10_sqlite_offsets_increase_lex_refuted.

Theorem C10_sqlite_read_spec : forall s k limit,
  sq_wf s -> (Z.of_nat k <= 9223372036854775807)%Z ->
  sq_read s (sq_off k) limit =
  Some (take limit (skipn k (sq_events s)), last_off (sq_off k) (take limit (skipn k (sq_events s)))).
Proof. exact sq_read_spec. Qed.
Print Assumptions C10_sqlite_read_spec.

Theorem C10_sqlite_stream_eq_read : forall s k,
  sq_wf s -> (Z.of_nat k <= 9223372036854775807)%Z ->
  sq_stream s (sq_off k) = option_map fst (sq_read s (sq_off k) 0%Z).
Proof. exact sq_stream_eq_read. Qed.
Print Assumptions C10_sqlite_stream_eq_read.

Theorem C10_decimal_roundtrip : forall p, (0 <= p <= 9223372036854775807)%Z -> parse_int (fmt_pos p) = Some p.
Proof. exact parse_fmt_pos. Qed.
Print Assumptions C10_decimal_roundtrip.

(* --- durable-streams store: the full statement is FALSE for the faithful model (known findings F8a-c);
   witnesses judged by the same oracle the correspondence check uses --- *)
Theorem C10_dstream_limit_truncation_refuted :
  let ops := [SAppend 0 0; SAppend 0 1; SAppend 0 2; SRead 0 [] 2%Z] in
  ok10 ops (run_init ds (ds_impl 0) ops) = false /\ known_masks [2; 4; 8; 6; 10; 12; 14] ops (run_init ds (ds_impl 0) ops) = 2.
Proof. vm_compute. split; reflexivity. Qed.
Print Assumptions C10_dstream_limit_truncation_refuted.

Theorem C10_dstream_event_offsets_refuted :
  let ops := [SAppend 0 0; SAppend 0 1; SRead 0 [] 0%Z; SRead 0 (ds_off 2 ++ [47%N; 48%N]) 0%Z] in
  ok10 ops (run_init ds (ds_impl 0) ops) = false /\ known_masks [2; 4; 8; 6; 10; 12; 14] ops (run_init ds (ds_impl 0) ops) = 4.
Proof. vm_compute. split; reflexivity. Qed.
Print Assumptions C10_dstream_event_offsets_refuted.

Theorem C10_dstream_pagination_refuted :
  let ops := [SAppend 0 0; SAppend 0 1; SAppend 0 2; SRead 0 [] 0%Z] in
  ok10 ops (run_init ds (ds_impl 2) ops) = false /\ known_masks [2; 4; 8; 6; 10; 12; 14] ops (run_init ds (ds_impl 2) ops) = 8.
Proof. vm_compute. split; reflexivity. Qed.
Print Assumptions C10_dstream_pagination_refuted.

(* what does hold (partial): with whole-chunk reads resumed from next offsets, the oracle accepts *)
Example C10_dstream_partial_example :
  let ops := [SAppend 0 0; SAppend 0 1; SAppend 0 2; SRead 0 [] 0%Z; SAppend 0 3; SRead 0 (ds_off 3) 0%Z; SRead 0 (ds_off 4) 5%Z] in
  ok_walk (flags_of_mask 4) (o_init, o_init) ops (run_init ds (ds_impl 0) ops) = true.
Proof. vm_compute. reflexivity. Qed.

(* --- subscription offsets and isolation --- *)
Theorem C10_offset_store : forall s id o, mem_load (mem_save s id o) id = o.
Proof. exact mem_offset_store. Qed.
Print Assumptions C10_offset_store.

Theorem C10_offset_store_other : forall s id id' o, id <> id' -> mem_load (mem_save s id o) id' = mem_load s id'.
Proof. exact mem_offset_store_other. Qed.
Print Assumptions C10_offset_store_other.

Theorem C10_isolation : forall (S : Type) (I : store_impl S) (st : S * S) (o : sop),
  (Nat.eqb (store_of o) 0 = true -> snd (fst (step S I st o)) = snd st) /\
  (Nat.eqb (store_of o) 0 = false -> fst (fst (step S I st o)) = fst st).
Proof. exact stores_isolated. Qed.
Print Assumptions C10_isolation.

Example C10_nonvacuous :
  let s := fold_left (fun s x => fst (mem_append s x)) [7; 8; 9] mem_init in
  mem_wf s /\ map e_pay (fst (mem_read s (mem_off 1) 1%Z)) = [8] /\ snd (mem_read s (mem_off 1) 1%Z) = mem_off 2.
Proof.
  cbv zeta. split; [repeat apply mem_wf_append; apply mem_wf_init|]. split; vm_compute; reflexivity.
Qed.
