(* C12 — A resumable subscription sees each event of its type once across restarts.
   Model: Store/ResubModel.v (SubscribeWithReplay, the live wrappedHandler, persistEvent over an abstract store that
   behaves as C10 proves the bundled stores do), variant `fixed` = the repaired code.  A history is any list of
   publishes, SubscribeWithReplay calls (at most one per id per incarnation of the bus) and restarts; each operation
   may have the process die after any number of its store operations / handler deliveries and may have any one of its
   store operations (append, load offset, open stream, fetch, save offset) fail. *)
From Coq Require Import List Arith Sorted.
Import ListNotations.
From Ebu Require Import Store.ResubModel Store.ResubProofs.

(* "a subscription's saved offset never moves backwards": over every history, crash point and failing operation,
   publishes from inside replay handlers included *)
Theorem C12_saved_offset_monotone : forall tys h1 h2 id,
  get_saved (run fixed tys h1 init) id <= get_saved (run fixed tys (h1 ++ h2) init) id.
Proof. exact saved_monotone. Qed.
Print Assumptions C12_saved_offset_monotone.

(* "only an event whose position had not yet been saved can be delivered again": every delivery of a persisted event
   happens while the subscription's saved position is below the event's position ... *)
Theorem C12_delivered_beyond_saved : forall tys h d,
  In d (dels (run fixed tys h init)) -> d_pos d = 0 \/ d_sv d < d_pos d.
Proof. exact delivered_beyond_saved. Qed.
Print Assumptions C12_delivered_beyond_saved.

(* ... hence once a position has been saved, no continuation of the history (crashes, failures, restarts) delivers it again *)
Theorem C12_no_redelivery_once_saved : forall tys h1 h2 id p,
  0 < p -> p <= get_saved (run fixed tys h1 init) id ->
  exists new, dels (run fixed tys (h1 ++ h2) init) = new ++ dels (run fixed tys h1 init) /\
              forall d, In d new -> ~ (d_id d = id /\ d_pos d = p).
Proof. exact no_redelivery_once_saved. Qed.
Print Assumptions C12_no_redelivery_once_saved.

(* "no event is lost": whatever crashed or failed, every event of the subscription's type at or below its saved
   position has been delivered to it, and a live subscription has been delivered everything of its type
   (histories in which replay handlers do not publish; see C12_publish_during_replay_refuted) *)
Theorem C12_nothing_lost : forall tys h,
  inner_free h -> covered tys (run fixed tys h init) /\ live_cov tys (run fixed tys h init).
Proof. exact nothing_lost. Qed.
Print Assumptions C12_nothing_lost.

Theorem C12_caught_up_after_resubscribe : forall tys h id,
  inner_free h ->
  let s := run fixed tys (h ++ [(ORestart, clean); (OSub id [], clean)]) init in
  forall p, typed tys (log s) id p -> delivered s id p.
Proof. exact caught_up_after_resubscribe. Qed.
Print Assumptions C12_caught_up_after_resubscribe.

(* "exactly once overall and in log order": when nothing fails, over any number of publishes, subscriptions, types and
   restarts, the positions delivered to a subscription are strictly increasing over the whole history, each is an
   event of the subscribed type and each has been saved; after the closing restart + SubscribeWithReplay the delivered
   positions are exactly the persisted events of the type, none twice *)
Theorem C12_exactly_once_in_order : forall tys h id,
  clean_hist h ->
  let s := run fixed tys h init in
  StronglySorted gt (for_id id (dels s)) /\
  (forall d, In d (dels s) -> typed tys (log s) (d_id d) (d_pos d)) /\
  (forall d, In d (dels s) -> d_pos d <= get_saved s (d_id d)).
Proof. exact exactly_once_in_order. Qed.
Print Assumptions C12_exactly_once_in_order.

Theorem C12_exactly_once_complete : forall tys h id,
  clean_hist h ->
  let s := run fixed tys (h ++ [(ORestart, clean); (OSub id [], clean)]) init in
  NoDup (for_id id (dels s)) /\ forall p, typed tys (log s) id p <-> In p (for_id id (dels s)).
Proof. exact exactly_once_complete. Qed.
Print Assumptions C12_exactly_once_complete.

(* "different ids progress independently": a SubscribeWithReplay delivers to its own id only and leaves every other
   saved offset alone; a publish delivers only to live subscriptions of its type and moves only their offsets *)
Theorem C12_subscribe_frame : forall tys s id,
  let s' := fst (sub fixed tys s id []) in
  only_for (fun i => i = id) s s' /\ forall i, i <> id -> get_saved s' i = get_saved s i.
Proof. exact sub_frame. Qed.
Print Assumptions C12_subscribe_frame.

Theorem C12_publish_frame : forall s ty val,
  let s' := pub fixed s ty val in
  only_for (fun i => In (i, ty) (live s)) s s' /\ forall i, ~ In (i, ty) (live s) -> get_saved s' i = get_saved s i.
Proof. exact pub_frame. Qed.
Print Assumptions C12_publish_frame.

(* REFUTED for the code as it is (known finding F10b): "also when events are published while SubscribeWithReplay is
   running".  The event with value 2, published by the replay handler, is persisted at position 2 and never delivered
   to subscription 0, although the history ends with a clean restart + SubscribeWithReplay. *)
Theorem C12_publish_during_replay_refuted :
  let s := run fixed [0] h_inner init in
  log s = [{| e_ty := 0; e_val := 1 |}; {| e_ty := 0; e_val := 2 |}; {| e_ty := 0; e_val := 3 |}] /\
  for_id 0 (dels s) = [3; 1] /\ get_saved s 0 = 3.
Proof. exact publish_during_replay_lost. Qed.
Print Assumptions C12_publish_during_replay_refuted.

(* the two defects of the pinned code (repaired by fix: commits): saved offset regresses; saved positions redelivered *)
Theorem C12_pinned_empty_save_refuted :
  get_saved (run pinned [0] (firstn 4 h_empty_save) init) 0 = 1 /\ get_saved (run pinned [0] h_empty_save init) 0 = 0 /\
  get_saved (run fixed [0] h_empty_save init) 0 = 1.
Proof. exact pinned_empty_save_regresses. Qed.
Print Assumptions C12_pinned_empty_save_refuted.

Theorem C12_pinned_load_error_refuted :
  for_id 0 (dels (run pinned [0] h_load_fails init)) = [1; 1] /\ get_saved (run pinned [0] (firstn 3 h_load_fails) init) 0 = 1 /\
  for_id 0 (dels (run fixed [0] h_load_fails init)) = [1].
Proof. exact pinned_load_error_redelivers. Qed.
Print Assumptions C12_pinned_load_error_refuted.

(* non-vacuity *)
Example C12_crash_redelivers_unsaved_only :
  let s := run fixed [0] h_crash init in
  map (fun d => (d_pos d, d_sv d)) (dels s) = [(2, 1); (2, 1); (1, 0)] /\ get_saved s 0 = 2.
Proof. exact crash_redelivers_unsaved_only. Qed.

(* ---- link to C10: the abstract store of the model above is what the bundled stores implement ---- *)
From Coq Require Import NArith ZArith.
From Ebu Require Store.StoreModel Store.StoreProofs Store.ResubLink.

(* memory store: streaming from the offset of the k-th event (k = 0: OffsetOldest) yields exactly the events after
   position k, in order - the `skipn from (indexed log)` of sub in ResubModel.v *)
Theorem C12_memory_store_streams_the_suffix : forall s k,
  StoreProofs.mem_wf s -> (StoreModel.m_next s < StoreProofs.W)%N -> k <= length (StoreModel.m_events s) ->
  StoreModel.mem_stream s (StoreProofs.mem_off k) = skipn k (StoreModel.m_events s).
Proof. exact ResubLink.memory_store_streams_the_suffix. Qed.
Print Assumptions C12_memory_store_streams_the_suffix.

(* ... and a saved offset is what LoadOffset returns, independently per id *)
Theorem C12_memory_store_offsets_are_a_map : forall s id id' o,
  StoreModel.mem_load (StoreModel.mem_save s id o) id = o /\
  (id <> id' -> StoreModel.mem_load (StoreModel.mem_save s id o) id' = StoreModel.mem_load s id').
Proof. exact ResubLink.memory_store_offsets_are_a_map. Qed.
Print Assumptions C12_memory_store_offsets_are_a_map.

(* REFUTED for the code as it is (known finding F10c): with two publishers overlapping, the live handler of event 2
   saves the offset of event 3 (bus.lastOffset is shared), the process dies before event 3 is handled, and after the
   restart event 3 is never delivered to the subscription.  Outside the sequential histories of the theorems above. *)
Theorem C12_overlapping_publishers_refuted :
  let s1 := run fixed [0] [(OPub 0 1, clean); (OSub 0 [], clean)] init in
  let s2 := overlap_crash s1 0 2 3 in
  let s3 := run fixed [0] [(ORestart, clean); (OSub 0 [], clean); (OPub 0 4, clean); (ORestart, clean); (OSub 0 [], clean)] s2 in
  map e_val (log s3) = [1; 2; 3; 4] /\ for_id 0 (dels s3) = [4; 2; 1] /\ get_saved s3 0 = 4.
Proof. exact overlapping_publishers_lose_an_event. Qed.
Print Assumptions C12_overlapping_publishers_refuted.

(* ---- the third store: durable-streams (model Store/ResubDs.v: paged replay, synthetic per-event offsets that resume
   from the end of the page; tied to the real store and bus by the suites resubds, resubdsinner) ---- *)
From Ebu Require Store.ResubDs Store.ResubDsProofs.

(* what survives there, over every history with crash points, failing store operations and publishes during replay:
   the saved offset never moves backwards and never points beyond the log *)
Theorem C12_ds_saved_offset_monotone : forall fuel tys h1 h2 id,
  get_saved (ResubDs.run_ds fuel tys h1 init) id <= get_saved (ResubDs.run_ds fuel tys (h1 ++ h2) init) id.
Proof. exact ResubDsProofs.saved_monotone_ds. Qed.
Print Assumptions C12_ds_saved_offset_monotone.

Theorem C12_ds_saved_offset_within_log : forall fuel tys h id,
  get_saved (ResubDs.run_ds fuel tys h init) id <= length (log (ResubDs.run_ds fuel tys h init)).
Proof. exact ResubDsProofs.saved_within_log_ds. Qed.
Print Assumptions C12_ds_saved_offset_within_log.

(* no loss there as long as no SubscribeWithReplay is cut short: in every history in which publishes may die or have
   their append fail at any point, but every SubscribeWithReplay runs undisturbed (clean plan, no publishes from inside
   the replay) and the log fits one page of the paged replay, everything of a subscription's type at or below its saved
   position has been delivered to it and a live subscription is up to date (fuel >= 2: two page reads per replay) *)
Theorem C12_ds_nothing_lost_when_replays_complete : forall tys f h,
  ResubDsProofs.subs_clean h -> length (log (ResubDs.run_ds (S (S f)) tys h init)) <= ResubDs.batch ->
  covered tys (ResubDs.run_ds (S (S f)) tys h init) /\ live_cov tys (ResubDs.run_ds (S (S f)) tys h init).
Proof. exact ResubDsProofs.nothing_lost_ds. Qed.
Print Assumptions C12_ds_nothing_lost_when_replays_complete.

(* ... and then, after a restart and an undisturbed SubscribeWithReplay, every persisted event of the type has arrived *)
Theorem C12_ds_caught_up_after_resubscribe : forall tys f h id,
  ResubDsProofs.subs_clean h ->
  let s := ResubDs.run_ds (S (S f)) tys (h ++ [(ORestart, clean); (OSub id [], clean)]) init in
  length (log s) <= ResubDs.batch -> forall p, typed tys (log s) id p -> delivered s id p.
Proof. exact ResubDsProofs.caught_up_after_resubscribe_ds. Qed.
Print Assumptions C12_ds_caught_up_after_resubscribe.

(* exactly once, in log order, there too when nothing goes wrong (clean plans, no publishes from inside a replay, the
   log fits one page of the paged replay) *)
Theorem C12_ds_exactly_once_in_order : forall tys f h id,
  clean_hist h ->
  let s := ResubDs.run_ds (S (S f)) tys h init in
  length (log s) <= ResubDs.batch ->
  StronglySorted gt (for_id id (dels s)) /\
  (forall d, In d (dels s) -> typed tys (log s) (d_id d) (d_pos d)) /\
  (forall d, In d (dels s) -> d_pos d <= get_saved s (d_id d)).
Proof. exact ResubDsProofs.exactly_once_in_order_ds. Qed.
Print Assumptions C12_ds_exactly_once_in_order.

Theorem C12_ds_exactly_once_complete : forall tys f h id,
  clean_hist h ->
  let s := ResubDs.run_ds (S (S f)) tys (h ++ [(ORestart, clean); (OSub id [], clean)]) init in
  length (log s) <= ResubDs.batch ->
  NoDup (for_id id (dels s)) /\ forall p, typed tys (log s) id p <-> In p (for_id id (dels s)).
Proof. exact ResubDsProofs.exactly_once_complete_ds. Qed.
Print Assumptions C12_ds_exactly_once_complete.

(* REFUTED there (known finding F8d, reproduced on the real store by suite resubds): "if the process dies at any point
   no event is lost".  Three events; the process dies in SubscribeWithReplay right after the first one has been handled
   and its synthetic offset - which resumes from the end of the page - saved; after the restart a clean
   SubscribeWithReplay delivers nothing, events 2 and 3 never reach the subscription. *)
Theorem C12_ds_interrupted_replay_refuted :
  let s := ResubDs.run_ds 80 [0; 1; 0] ResubDsProofs.h_ds_crash init in
  map e_val (log s) = [1; 2; 3] /\ for_id 0 (dels s) = [1] /\ get_saved s 0 = 3 /\ is_live s 0 = true.
Proof. exact ResubDsProofs.ds_interrupted_replay_loses. Qed.
Print Assumptions C12_ds_interrupted_replay_refuted.

(* non-vacuity: without the crash everything arrives once, in order - also an event the handler publishes during the
   replay, which the next page picks up *)
Example C12_ds_clean_example :
  let s := ResubDs.run_ds 80 [0; 1; 0] [(OPub 0 1, clean); (OPub 1 2, clean); (OPub 0 3, clean); (OSub 0 [(0, 0, 4)], clean);
                                        (OPub 0 5, clean); (ORestart, clean); (OSub 0 [], clean)] init in
  map e_val (log s) = [1; 2; 3; 4; 5] /\ rev (for_id 0 (dels s)) = [1; 3; 4; 5] /\ get_saved s 0 = 5.
Proof. exact ResubDsProofs.ds_clean_example. Qed.
