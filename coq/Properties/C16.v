(* C16 — Upcaster registration can never create a cycle and upcasting always terminates.
   Only property statements here, each closed by [exact] of a lemma proved elsewhere. *)
From Coq Require Import List Arith Bool.
Import ListNotations.
From Ebu Require Import Upcast.UpcastModel Upcast.UpcastProofs.

(* A registration is rejected exactly when a name is empty (0), source = target, the function
   is nil (0), or the target already reaches the source; accepted (appended) otherwise. *)
Theorem C16_accept_iff : forall g from to f,
  let ok := from <> 0 /\ to <> 0 /\ from <> to /\ f <> 0 /\ ~ reach g to from in
  (ok -> register g from to f = (g ++ [new_upc from to f], RegOk)) /\
  (~ ok -> register g from to f = (g, RegRejected)).
Proof. exact register_accept_iff. Qed.
Print Assumptions C16_accept_iff.

(* The registry is acyclic after any sequence of RegisterUpcastFunc / ClearUpcasts /
   ClearUpcastsForType.  Racing registrations are serialised by the registry's write lock
   (one atomic step each), so every race is one of these sequences. *)
Theorem C16_acyclic_invariant : forall ops, acyclic (fold_left do_uop ops []).
Proof. exact acyclic_invariant. Qed.
Print Assumptions C16_acyclic_invariant.

(* apply terminates on every registry, for every behaviour of the registered functions,
   including raw upcasters that return a type other than their declared target. *)
Theorem C16_apply_terminates : forall (data : Type) (beh : fnid -> data -> option (data * name)) g d t,
  apply beh g d t <> ApOutOfFuel.
Proof. exact apply_terminates. Qed.
Print Assumptions C16_apply_terminates.

(* non-vacuity: a non-trivial acyclic registry reached through the API, and a rejected cycle *)
Example C16_nonvacuous :
  let g := fold_left do_uop [OReg 1 2 7; OReg 2 3 8; OReg 3 1 9; OClearType 9; OReg 1 3 5] [] in
  length g = 3 /\ snd (register g 3 1 9) = RegRejected /\ snd (register g 3 4 9) = RegOk.
Proof. vm_compute. auto. Qed.
